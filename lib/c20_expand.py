"""C20: the expansion of `notation!` (typed HIR of the generated `_write` / `_read` / `_len`) against the DSL item lists,
the hand-written glue (`pool_has_utf8`, the four public ClassFile functions), and the macro definition's token tree.

Normal forms ("ops") are nested tuples/strings; the expected ops are derived from the DSL, the actual ones are extracted from
HIR with a closed list of idioms — anything else raises Unrecognised and the instance fails (fail closed)."""
from lib import hir as H
from lib import c20_util as U
from lib import c20_layout as L
from lib.c20_util import PRIMS, Poly, Unrecognised

CR = "raw_class_file"
WIDTH_OF_TY = {"u8": 1, "u16": 2, "u32": 4}


# ================================================================================================ HIR helpers
class Env:
    """Which local ids stand for which names while walking one generated function."""

    def __init__(self):
        self.ids = {}       # local id -> canonical name
        self.latest = {}    # name -> id of the binding currently in scope

    def bind(self, lid, name):
        self.ids[lid] = name
        self.latest[name] = {lid}

    def alias(self, lid, name):
        """a second binding of the same value under the same name (macro hygiene keeps both in scope)"""
        self.ids[lid] = name
        self.latest.setdefault(name, set()).add(lid)

    def copy(self):
        e = Env()
        e.ids = dict(self.ids)
        e.latest = {k: set(v) for k, v in self.latest.items()}
        return e

    def name_of(self, lid, what=""):
        nm = self.ids.get(lid)
        if nm is None:
            raise Unrecognised("reference to an unknown local %s" % what)
        if lid not in self.latest.get(nm, ()):
            raise Unrecognised("reference to a shadowed binding of `%s`" % nm)
        return nm


def hir_poly(n, env):
    """Integer expression in HIR -> Poly over field names / len(field) / total(binder) / elem."""
    n = H.peel(n, casts=True)
    k = n.get("k")
    if k == "lit" and (n.get("lit") or {}).get("t") == "int":
        return Poly.const(n["lit"]["v"])
    if k == "bin" and n["op"] in ("+", "-", "*"):
        a, b = hir_poly(n["l"], env), hir_poly(n["r"], env)
        return a + b if n["op"] == "+" else (a - b if n["op"] == "-" else a * b)
    if k == "mcall" and n["name"] == "len" and not n["args"]:
        path = (n.get("callee") or {}).get("path") or ""
        if not path.startswith(("alloc::vec::Vec", "core::slice")):
            raise Unrecognised("len() of %s" % path)
        return Poly.var("len(%s)" % place_name(n["recv"], env))
    if k == "mcall" and n["name"] == "_len" and not n["args"]:
        loc = H.local_of(n["recv"])
        if not loc:
            raise Unrecognised("_len() receiver")
        return Poly.var("total(%s)" % env.name_of(loc[0], loc[1]))
    if k in ("path", "field"):
        return Poly.var(place_name(n, env))
    raise Unrecognised("integer expression %s" % H.render(n)[:80])


def place_name(n, env):
    """`self.f` / `this.f` / local bound to field f / loop element -> canonical name."""
    root, fields = H.place_root(n)
    if root is None:
        raise Unrecognised("place %s" % H.render(n)[:60])
    fields = [f for f in fields if not f.startswith(".")]
    base = env.name_of(root[0], root[1])
    if base in ("<self>",) or base.startswith("<binder:"):
        if len(fields) != 1:
            raise Unrecognised("place %s" % H.render(n)[:60])
        return fields[0]
    if fields:
        raise Unrecognised("projection out of local %s" % base)
    return base


def stmts_of(block):
    if block.get("k") != "block":
        raise Unrecognised("expected a block, got %s" % block.get("k"))
    out = list(block["stmts"])
    if "tail" in block:
        out.append(block["tail"])
    return out


def is_ok_unit(n):
    n = H.peel(n)
    c = H.ctor_of(n)
    return bool(c and c[1] == "Ok" and n.get("k") == "call" and len(n["args"]) == 1 and H.peel(n["args"][0]).get("k") == "tuple"
                and not H.peel(n["args"][0])["es"])


def is_err_value(n):
    n = H.peel(n)
    c = H.ctor_of(n)
    return bool(c and c[0] == "core::result::Result" and c[1] == "Err")


def short(t):
    return (t or "").rsplit("::", 1)[-1]


# ================================================================================================ expected ops from the DSL
def exp_elem(elem):
    return ("prim", elem[1]) if elem[0] == "prim" else ("ref", elem[1])


def expected_write(items, tag=None):
    ops = []
    if tag is not None:
        ops.append(("w", tag[0], tag[1].show()))
    for it in items:
        n = L.item_node(it)
        if it["role"] == "const":
            ops.append(("w", n[1], U.parse_expr(it["expr"]).show()))
        elif n[0] == "prim":
            ops.append(("w", n[1], it["name"]))
        elif n[0] == "virt":
            pass
        elif n[0] == "ref":
            ops.append(("ref", n[1], it["name"]))
        else:
            if n[1][0] == "w":
                ops.append(("w", n[1][1], "len(%s)" % it["name"]))
            e = n[2]
            ops.append(("loop", it["name"], ("w", e[1], "elem") if e[0] == "prim" else ("ref", e[1], "elem")))
    return ops


def expected_read(items, tag_names=()):
    ops = []
    ren = lambda p: p
    for it in items:
        n = L.item_node(it)
        if it["role"] == "const":
            ops.append(("let", it["name"], ("prim", n[1])))
            lit = it["expr"][0]["s"] if len(it["expr"]) == 1 and it["expr"][0]["t"] == "lit" else None
            if lit is not None:
                ops.append(("check", it["name"], U.parse_lit(lit)[1]))
            else:
                ops.append(("discard", it["name"]))
        elif n[0] == "prim":
            ops.append(("let", it["name"], ("prim", n[1])))
        elif n[0] == "virt":
            ops.append(("let", it["name"], ("expr", U.parse_expr(it["nowrite"]).show())))
        elif n[0] == "ref":
            ops.append(("let", it["name"], ("ref", n[1])))
        else:
            cnt = ("w", n[1][1]) if n[1][0] == "w" else ("ext", U.parse_expr(n[1][1]).show())
            ops.append(("let", it["name"], ("vec", cnt, exp_elem(n[2]))))
        if it.get("pool_set") is not None:
            ps = it["pool_set"]
            if (len(ps) == 2 and ps[0].get("s") == "Some" and ps[1].get("d") == "(" and len(ps[1]["ts"]) == 2
                    and ps[1]["ts"][0].get("s") == "&" and ps[1]["ts"][1].get("t") == "ident"):
                ops.append(("let", "pool", ("some_ref", ps[1]["ts"][1]["s"])))
            else:
                raise Unrecognised("pool expression %s" % U.tok_text(ps))
    ops.append(("discard", "pool"))
    ops.append(("ok", tuple(it["name"] for it in items if it["role"] == "field")))
    return ops


def expected_len(items, tag_w=None):
    leaves = []
    if tag_w is not None:
        leaves.append(("k", tag_w))
    else:
        leaves.append(("k", 0))
    for it in items:
        n = L.item_node(it)
        if n[0] == "prim":
            leaves.append(("k", n[1]))
        elif n[0] == "virt":
            leaves.append(("k", 0))
        elif n[0] == "ref":
            leaves.append(("ref", n[1], it["name"]))
        else:
            head = n[1][1] if n[1][0] == "w" else 0
            e = n[2]
            leaves.append(("vec", head, it["name"], ("k", e[1]) if e[0] == "prim" else ("ref", e[1], "elem")))
    return leaves


# ================================================================================================ extraction: _write
def x_write_stmt(s, env, writer_id):
    """One statement of a generated writer -> op, or None for bookkeeping statements."""
    if s.get("k") == "let":
        # `let this = self;` / `let _ = this;`
        init = s.get("init")
        loc = H.local_of(init) if init else None
        if loc is None:
            raise Unrecognised("let in writer: %s" % H.render(s)[:60])
        nm = env.name_of(loc[0], loc[1])
        if s["pat"].get("k") == "bind":
            if nm != "<self>":
                raise Unrecognised("alias of %s in writer" % nm)
            env.bind(s["pat"]["id"], "<binder:%s>" % s["pat"]["name"])
            env.bind_alias = s["pat"]["name"]
        elif s["pat"].get("k") != "wild":
            raise Unrecognised("let pattern in writer")
        return None
    e = s["e"] if s.get("k") == "semi" else s
    if e.get("k") == "for":
        if e["pat"].get("k") != "bind":
            raise Unrecognised("loop pattern")
        over = place_name(e["iter"], env)
        inner = env.copy()
        inner.bind(e["pat"]["id"], "elem")
        body = [x_write_stmt(x, inner, writer_id) for x in stmts_of(e["body"])]
        body = [b for b in body if b is not None]
        if len(body) != 1:
            raise Unrecognised("loop body writes %d items" % len(body))
        return ("loop", over, body[0])
    if e.get("k") != "try":
        raise Unrecognised("statement without `?`: %s" % H.render(e)[:80])
    call = e["e"]
    if call.get("k") == "call" and (call.get("callee") or {}).get("path") == "std::io::Write::write_all":
        w, arg = call["args"]
        if (H.local_of(w) or (None,))[0] != writer_id:
            raise Unrecognised("write_all to something else than the writer")
        a = H.peel(arg)
        if not (a.get("k") == "mcall" and a["name"] == "to_be_bytes"):
            raise Unrecognised("bytes written are not `<int>.to_be_bytes()`: %s" % H.render(a)[:60])
        ty = (a.get("callee") or {}).get("impl_ty")
        if ty not in WIDTH_OF_TY:
            raise Unrecognised("to_be_bytes of %s" % ty)
        return ("w", WIDTH_OF_TY[ty], hir_poly(a["recv"], env).show())
    if call.get("k") == "mcall" and call["name"] == "_write":
        cal = call.get("callee") or {}
        if len(call["args"]) != 1 or (H.local_of(call["args"][0]) or (None,))[0] != writer_id:
            raise Unrecognised("_write to something else than the writer")
        if not (cal.get("path") or "").startswith(CR + "::"):
            raise Unrecognised("_write resolves to %s" % cal.get("path"))
        return ("ref", short(cal.get("impl_ty")), place_name(call["recv"], env))
    raise Unrecognised("writer statement %s" % H.render(e)[:80])


def x_write_seq(stmts, env, writer_id):
    ops = []
    for s in stmts:
        if is_ok_unit(s):
            continue
        if s.get("k") == "semi" and H.peel(s).get("k") == "tuple":
            continue
        op = x_write_stmt(s, env, writer_id)
        if op is not None:
            ops.append(op)
    return ops


# ================================================================================================ extraction: _read
def x_prim_block(n, reader_id):
    """{ let mut buf = [0u8; N]; reader.read_exact(&mut buf)?; uN::from_be_bytes(buf) } -> width, else None"""
    if n.get("k") != "block" or len(n["stmts"]) != 2 or "tail" not in n:
        return None
    l, rd = n["stmts"]
    t = n["tail"]
    if not (l.get("k") == "let" and l["pat"].get("k") == "bind" and l.get("init", {}).get("k") == "repeat"):
        return None
    buf = l["pat"]["id"]
    if H.const_value(l["init"]["e"]) != 0:
        raise Unrecognised("read buffer not zero-initialised")
    rdc = H.peel(rd, tries=True)
    if not (rdc.get("k") == "mcall" and rdc["name"] == "read_exact" and (rdc.get("callee") or {}).get("path") == "std::io::Read::read_exact"):
        return None
    if rd.get("k") != "semi" or rd["e"].get("k") != "try":
        raise Unrecognised("read_exact result not propagated with `?`")
    if (H.local_of(rdc["recv"]) or (None,))[0] != reader_id or (H.local_of(rdc["args"][0]) or (None,))[0] != buf:
        raise Unrecognised("read_exact on something else than (reader, buf)")
    if not (t.get("k") == "call" and H.callee_name(t) == "from_be_bytes" and (H.local_of(t["args"][0]) or (None,))[0] == buf):
        raise Unrecognised("value is not `<int>::from_be_bytes(buf)`: %s" % H.render(t)[:60])
    ty = (t.get("callee") or {}).get("impl_ty")
    if ty not in WIDTH_OF_TY:
        raise Unrecognised("from_be_bytes of %s" % ty)
    if l["init"].get("ty") != "[u8; %d]" % WIDTH_OF_TY[ty]:
        raise Unrecognised("buffer %s for a %s" % (l["init"].get("ty"), ty))
    return WIDTH_OF_TY[ty]


def x_ref_read(n, env, reader_id):
    """`T::_read(reader, pool)?` -> T"""
    if n.get("k") != "try":
        return None
    call = n["e"]
    cal = call.get("callee") or {}
    if not (call.get("k") == "call" and short(cal.get("path")) == "_read" and (cal.get("path") or "").startswith(CR + "::")):
        return None
    if len(call["args"]) != 2 or (H.local_of(call["args"][0]) or (None,))[0] != reader_id:
        raise Unrecognised("_read from something else than the reader")
    ploc = H.local_of(call["args"][1])
    if not ploc or env.name_of(ploc[0], ploc[1]) != "pool":
        raise Unrecognised("_read does not receive the current pool")
    return short(cal.get("impl_ty"))


def x_value(n, env, reader_id):
    """Initialiser of a generated `let` -> value term."""
    w = x_prim_block(n, reader_id)
    if w is not None:
        return ("prim", w)
    t = x_ref_read(n, env, reader_id)
    if t is not None:
        return ("ref", t)
    if n.get("k") == "block" and len(n["stmts"]) == 3 and "tail" in n:
        l_len, l_vec, loop = n["stmts"]
        if (l_len.get("k") == "let" and l_vec.get("k") == "let" and l_len["pat"].get("k") == "bind" and l_vec["pat"].get("k") == "bind"
                and H.peel(loop).get("k") == "for"):
            w = x_prim_block(l_len["init"], reader_id)
            cnt = ("w", w) if w is not None else ("ext", hir_poly(l_len["init"], env).show())
            len_id, vec_id = l_len["pat"]["id"], l_vec["pat"]["id"]
            wc = l_vec["init"]
            if not (wc.get("k") == "call" and H.callee_name(wc) in ("with_capacity", "new")):
                raise Unrecognised("vector initialiser %s" % H.render(wc)[:60])
            f = H.peel(loop)
            rng = f["iter"]
            if not (rng.get("k") == "struct" and rng.get("adt") == "core::ops::range::Range"):
                raise Unrecognised("loop is not over 0..len")
            fs = {x["name"]: x["e"] for x in rng["fields"]}
            if H.const_value(fs["start"]) != 0 or (H.local_of(fs["end"]) or (None,))[0] != len_id:
                raise Unrecognised("loop is not over 0..len")
            if f["pat"].get("k") != "wild":
                raise Unrecognised("loop variable used")
            body = stmts_of(f["body"])
            inner = env.copy()
            # `let i = <read>; vec.push(i);`  or  `vec.push(<read>);`
            if len(body) == 2 and body[0].get("k") == "let" and body[0]["pat"].get("k") == "bind" and "init" in body[0]:
                elem_src, elem_id, push = body[0]["init"], body[0]["pat"]["id"], H.peel(body[1])
            elif len(body) == 1:
                elem_src, elem_id, push = None, None, H.peel(body[0])
            else:
                raise Unrecognised("loop body")
            if not (push.get("k") == "mcall" and push["name"] == "push" and len(push["args"]) == 1
                    and (H.local_of(push["recv"]) or (None,))[0] == vec_id):
                raise Unrecognised("element is not pushed to the vector")
            if elem_src is None:
                elem_src = push["args"][0]
            elif (H.local_of(push["args"][0]) or (None,))[0] != elem_id:
                raise Unrecognised("the value pushed is not the element read")
            ev = x_value(elem_src, inner, reader_id)
            if ev[0] not in ("prim", "ref"):
                raise Unrecognised("element read")
            if (H.local_of(n["tail"]) or (None,))[0] != vec_id:
                raise Unrecognised("block value is not the vector")
            return ("vec", cnt, ev)
    c = H.ctor_of(H.peel(n, refs=False))
    if c and c[1] == "Some" and n.get("k") == "call" and len(n["args"]) == 1 and n["args"][0].get("k") == "ref":
        loc = H.local_of(n["args"][0])
        if loc:
            return ("some_ref", env.name_of(loc[0], loc[1]))
    return ("expr", hir_poly(n, env).show())


def x_read_seq(stmts, env, reader_id, adt, variant):
    ops = []
    for s in stmts:
        if s.get("k") == "let":
            p = s["pat"]
            if p.get("k") == "wild":
                loc = H.local_of(s.get("init") or {})
                if not loc:
                    raise Unrecognised("let _ = <expr>")
                ops.append(("discard", env.name_of(loc[0], loc[1])))
                continue
            if p.get("k") != "bind" or "init" not in s or "els" in s:
                raise Unrecognised("let pattern in reader")
            val = x_value(s["init"], env, reader_id)
            if val == ("expr", p["name"]):
                env.alias(p["id"], p["name"])
            else:
                env.bind(p["id"], p["name"])
            ops.append(("let", p["name"], val))
            continue
        e = H.peel(s)
        if e.get("k") == "if" and "else" not in e:
            cnd = H.peel(e["cond"])
            if cnd.get("k") == "bin" and cnd["op"] == "!=":
                loc = H.local_of(cnd["l"])
                v = H.const_value(cnd["r"])
                then = [x for x in stmts_of(e["then"])]
                if loc and isinstance(v, int) and len(then) == 1 and H.peel(then[0]).get("k") == "ret" and is_err_value(H.peel(then[0])["e"]):
                    ops.append(("check", env.name_of(loc[0], loc[1]), v))
                    continue
            raise Unrecognised("conditional in reader: %s" % H.render(e["cond"])[:60])
        c = H.ctor_of(e)
        if c and c[1] == "Ok" and e.get("k") == "call":
            lit = H.peel(e["args"][0])
            if lit.get("k") != "struct" or lit.get("adt") != adt or (variant is not None and lit.get("variant") != variant) or lit.get("base"):
                raise Unrecognised("result is not Ok(%s%s {..})" % (short(adt), "::" + variant if variant else ""))
            names = []
            for f in lit["fields"]:
                loc = H.local_of(f["e"])
                if not loc or env.name_of(loc[0], loc[1]) != f["name"]:
                    raise Unrecognised("field %s is not initialised from the value read for it" % f["name"])
                names.append(f["name"])
            ops.append(("ok", tuple(names)))
            continue
        raise Unrecognised("reader statement %s" % H.render(e)[:80])
    return ops


# ================================================================================================ extraction: _len
def flatten_sum(n):
    n0 = H.peel(n, refs=False, derefs=False)
    if n0.get("k") == "bin" and n0["op"] == "+" and "overloaded" not in n0:
        return flatten_sum(n0["l"]) + flatten_sum(n0["r"])
    return [n0]


def x_len_leaf(n, env):
    k = n.get("k")
    if k == "lit":
        v = H.const_value(n)
        if isinstance(v, int):
            return ("k", v)
    if k == "mcall" and n["name"] == "_len" and not n["args"]:
        cal = n.get("callee") or {}
        if not (cal.get("path") or "").startswith(CR + "::"):
            raise Unrecognised("_len resolves to %s" % cal.get("path"))
        return ("ref", short(cal.get("impl_ty")), place_name(n["recv"], env))
    if k == "block":
        st = n["stmts"]
        # enum wrapper { let _i = field; LEAF }
        if len(st) == 1 and st[0].get("k") == "let" and st[0]["pat"].get("k") == "bind" and "tail" in n:
            nm = place_name(st[0]["init"], env)
            inner = env.copy()
            inner.bind(st[0]["pat"]["id"], nm)
            leaves = [x_len_leaf(x, inner) for x in flatten_sum(n["tail"])]
            if len(leaves) != 1:
                raise Unrecognised("wrapped length is a sum")
            return leaves[0]
        if len(st) == 2 and st[0].get("k") == "let" and H.peel(st[1]).get("k") == "for" and "tail" in n:
            acc = st[0]["pat"]
            if acc.get("k") != "bind":
                raise Unrecognised("accumulator")
            head = hir_poly(st[0]["init"], env).const_value()
            if head is None:
                raise Unrecognised("accumulator start is not constant")
            f = H.peel(st[1])
            over = place_name(f["iter"], env)
            body = stmts_of(f["body"])
            if len(body) != 1:
                raise Unrecognised("length loop body")
            a = H.peel(body[0])
            if not (a.get("k") == "assignop" and a["op"] in ("+", "+=") and (H.local_of(a["l"]) or (None,))[0] == acc["id"]):
                raise Unrecognised("length loop does not accumulate with +=")
            inner = env.copy()
            if f["pat"].get("k") == "bind":
                inner.bind(f["pat"]["id"], "elem")
            el = [x_len_leaf(x, inner) for x in flatten_sum(a["r"])]
            if len(el) != 1:
                raise Unrecognised("element length is a sum")
            if (H.local_of(n["tail"]) or (None,))[0] != acc["id"]:
                raise Unrecognised("block value is not the accumulator")
            return ("vec", head, over, el[0])
    raise Unrecognised("length term %s" % H.render(n)[:80])


def x_len_expr(n, env):
    """Terms of the length sum; addition commutes, so the terms are compared as a multiset (sorted)."""
    return sorted((x_len_leaf(x, env) for x in flatten_sum(n)), key=repr)


# ================================================================================================ R20.4
def fn_of(c, tname, fname):
    bs = [b for b in c.bodies if b.get("name") == fname and b.get("impl_ty") == "%s::%s" % (CR, tname) and not b.get("impl_trait")]
    return bs[0] if len(bs) == 1 else None


def _param_ids(b):
    return [p.get("id") if p.get("k") == "bind" else None for p in b["params"]]


def skip_binder_lets(stmts, env, binder):
    """`let this = self; let _ = this;` at the top of struct functions."""
    out = []
    for s in stmts:
        if s.get("k") == "let" and "init" in s:
            loc = H.local_of(s["init"])
            if loc and s["pat"].get("k") == "bind" and env.ids.get(loc[0]) == "<self>":
                env.bind(s["pat"]["id"], "<binder:%s>" % s["pat"]["name"])
                if binder is not None and s["pat"]["name"] != binder:
                    raise Unrecognised("self bound to %s, DSL binder is %s" % (s["pat"]["name"], binder))
                continue
            if loc and s["pat"].get("k") == "wild" and (env.ids.get(loc[0]) or "").startswith("<binder:"):
                continue
        out.append(s)
    return out


def total_fix(p_show, binder):
    return p_show


def arm_env(arm, env0, v, adt):
    """Environment of a `match self` arm: `[this @] T::V { f: f, .. }`."""
    env = env0.copy()
    p = arm["pat"]
    if p.get("k") == "bind" and "sub" in p:
        env.bind(p["id"], "<binder:%s>" % p["name"])
        if v["binder"] != p["name"]:
            raise Unrecognised("arm binder %s, DSL binder %s" % (p["name"], v["binder"]))
        p = p["sub"]
    if p.get("k") != "pstruct" or p["res"].get("adt") != adt or p.get("rest"):
        raise Unrecognised("arm pattern")
    for f in p["fields"]:
        fp = f["pat"]
        if fp.get("k") != "bind" or "sub" in fp:
            raise Unrecognised("field pattern %s" % f["name"])
        env.bind(fp["id"], f["name"])
    want = [it["name"] for it in v["items"] if it["role"] == "field"]
    if sorted(want) != sorted(f["name"] for f in p["fields"]):
        raise Unrecognised("arm binds %s, DSL fields %s" % ([f["name"] for f in p["fields"]], want))
    return env, p["res"].get("variant")


def norm_total(ops_show, binder):
    return ops_show


def self_match(body, self_id):
    """The `match self {..}` of an enum writer/len function and the statements around it."""
    sts = stmts_of(body)
    ms = [s for s in sts if H.peel(s).get("k") == "match" and (H.local_of(H.peel(s)["scrut"]) or (None,))[0] == self_id]
    if len(ms) != 1:
        raise Unrecognised("no single `match self`")
    rest = [s for s in sts if s is not ms[0]]
    return H.peel(ms[0]), rest


def canon_binder(s, binder):
    """total(<binder:this>) -> total(this)"""
    return s.replace("total(<binder:", "total(").replace(">)", ")") if isinstance(s, str) else s


def canon(ops):
    if isinstance(ops, tuple):
        return tuple(canon(x) for x in ops)
    if isinstance(ops, list):
        return [canon(x) for x in ops]
    return canon_binder(ops, None)


def r20_4(c, R, M):
    rid = "R20.4"
    R.rule(rid, "for every notation! type the generated _write, _read and _len perform exactly the DSL's item sequence: big-endian "
                "integers of the declared width (buffer size = width), count before elements, nested structures through their own "
                "_write/_read/_len, constants written from their expression and checked (literal) or discarded on read, nowrite fields "
                "derived from the tag, every field bound to the value read for it; arms in DSL order with the DSL patterns and guards; "
                "the public to_bytes/write/read/length call the generated functions of ClassFile and do nothing else (no validation, "
                "normalisation, loop or additional error between the caller and the expansion)")
    adt_names = set()
    for b in c.bodies:
        if b.get("name") in ("_write", "_read", "_len") and (b.get("impl_ty") or "").startswith(CR + "::") and not b.get("impl_trait"):
            adt_names.add(short(b["impl_ty"]))
    for t in sorted(adt_names):
        R.inst(rid, "modelled:%s" % t, t in M.by_name, detail="a type with generated _write/_read/_len whose notation! invocation was not seen", nontrivial=False)
    n_expected = 0
    for name, m in M.by_name.items():
        fns = {f: fn_of(c, name, f) for f in ("_write", "_read", "_len")}
        if not all(R.anchor(rid, "fn %s::%s" % (name, f), fns[f], sp=m["sp"]) for f in fns):
            continue
        adt = "%s::%s" % (CR, name)
        if m["kind"] == "struct":
            n_expected += 3
            _struct(R, rid, m, fns, adt)
        else:
            n_expected += 3 * len(m["variants"]) + 1
            _enum(R, rid, m, fns, adt)
    _api(c, R, rid)
    R.floor(rid, n_expected + 8)


def _report(R, rid, key, sp, fn):
    try:
        want, got = fn()
        want, got = canon(want), canon(got)
        R.inst(rid, key, want == got, sp=sp, expect=_show(want), got=_show(got))
    except Unrecognised as e:
        R.inst(rid, key, False, sp=sp, detail="generated code is not the expected idiom: %s" % e)


def _show(ops):
    return "; ".join(str(o) for o in ops)[:1500]


def _struct(R, rid, m, fns, adt):
    name = m["name"]
    items = m["items"]

    def wr():
        b = fns["_write"]
        ids = _param_ids(b)
        env = Env()
        env.bind(ids[0], "<self>")
        sts = skip_binder_lets(stmts_of(b["body"]), env, m["binder"])
        return expected_write(items), x_write_seq(sts, env, ids[1])

    def rd():
        b = fns["_read"]
        ids = _param_ids(b)
        env = Env()
        env.bind(ids[1], "pool")
        return expected_read(items), x_read_seq(stmts_of(b["body"]), env, ids[0], adt, None)

    def ln():
        b = fns["_len"]
        ids = _param_ids(b)
        env = Env()
        env.bind(ids[0], "<self>")
        sts = skip_binder_lets(stmts_of(b["body"]), env, m["binder"])
        if len(sts) != 1:
            raise Unrecognised("_len body has %d statements" % len(sts))
        return sorted(expected_len(items), key=repr), x_len_expr(sts[0], env)

    _report(R, rid, "expand:%s/_write" % name, fns["_write"]["sp"], wr)
    _report(R, rid, "expand:%s/_read" % name, fns["_read"]["sp"], rd)
    _report(R, rid, "expand:%s/_len" % name, fns["_len"]["sp"], ln)


def _enum(R, rid, m, fns, adt):
    name = m["name"]
    tag_w = PRIMS.get(m["tag_ty"])
    # ---- _write and _len: one arm per variant (by name)
    for fname in ("_write", "_len"):
        b = fns[fname]
        ids = _param_ids(b)
        env0 = Env()
        env0.bind(ids[0], "<self>")
        try:
            mt, rest = self_match(b["body"], ids[0])
            if fname == "_write" and not (len(rest) == 1 and is_ok_unit(rest[0])):
                raise Unrecognised("statements around `match self`")
            if fname == "_len" and rest:
                raise Unrecognised("statements around `match self`")
            arms = {}
            for a in mt["arms"]:
                p = a["pat"]["sub"] if a["pat"].get("k") == "bind" and "sub" in a["pat"] else a["pat"]
                arms.setdefault((p.get("res") or {}).get("variant"), []).append(a)
        except Unrecognised as e:
            R.inst(rid, "expand:%s/%s" % (name, fname), False, sp=b["sp"], detail=str(e))
            continue
        for v in m["variants"]:
            key = "expand:%s::%s/%s" % (name, v["name"], fname)
            al = arms.get(v["name"], [])

            def go(v=v, al=al, fname=fname, b=b, ids=ids):
                if len(al) != 1 or "guard" in al[0]:
                    raise Unrecognised("%d arms for the variant" % len(al))
                env, _ = arm_env(al[0], env0, v, adt)
                sts = stmts_of(al[0]["body"])
                sts = [s for s in sts if not (s.get("k") == "let" and s["pat"].get("k") == "wild")]
                if fname == "_write":
                    return expected_write(v["items"], (tag_w, U.parse_expr(v["tag_expr"]))), x_write_seq(sts, env, ids[1])
                if len(sts) != 1:
                    raise Unrecognised("_len arm has %d statements" % len(sts))
                return sorted(expected_len(v["items"], tag_w), key=repr), x_len_expr(sts[0], env)
            _report(R, rid, key, (al[0]["sp"] if al else b["sp"]), go)
        extra = [k for k in arms if k not in [v["name"] for v in m["variants"]]]
        R.inst(rid, "expand:%s/%s:arms" % (name, fname), not extra and len(mt["arms"]) == len(m["variants"]), sp=b["sp"], got=extra, nontrivial=False)
    # ---- _read: tag read, arms in DSL order
    b = fns["_read"]
    ids = _param_ids(b)
    env0 = Env()
    env0.bind(ids[1], "pool")
    try:
        sts = stmts_of(b["body"])
        mt = H.peel(sts[-1])
        pre = x_read_seq(sts[:-1], env0, ids[0], adt, None)
        want_pre = ([("let", m["pool_alias"], ("expr", "pool"))] if m["pool_alias"] else []) + [("let", m["tag_name"], ("prim", tag_w))]
        if m["pool_alias"] and m["pool_alias"] != "pool":
            raise Unrecognised("pool alias other than `pool`")
        if pre != want_pre:
            raise Unrecognised("before the match: %s, expected %s" % (pre, want_pre))
        if mt.get("k") != "match" or (H.local_of(mt["scrut"]) or (None,))[0] not in env0.latest.get(m["tag_name"], ()):
            raise Unrecognised("the function does not end in `match <tag>`")
        n_arms = len(m["variants"]) + (1 if m["fallback"] else 0)
        if len(mt["arms"]) != n_arms:
            raise Unrecognised("%d arms for %d variants" % (len(mt["arms"]), len(m["variants"])))
    except Unrecognised as e:
        R.inst(rid, "expand:%s/_read" % name, False, sp=b["sp"], detail=str(e))
        return
    R.inst(rid, "expand:%s/_read" % name, True, sp=b["sp"], nontrivial=False)
    for v, arm in zip(m["variants"], mt["arms"]):
        key = "expand:%s::%s/_read" % (name, v["name"])

        def go(v=v, arm=arm):
            env = env0.copy()
            pat = U.parse_pattern(v["tag_pat"])
            p = arm["pat"]
            tag_names = [m["tag_name"]]
            if pat["kind"] == "lit":
                ok = p.get("k") == "pexpr" and (p.get("e") or {}).get("v") == pat["v"]
            elif pat["kind"] == "range":
                sub = p.get("sub") if p.get("k") == "bind" else p
                ok = ((sub or {}).get("k") == "prange" and sub["lo"].get("v") == pat["lo"] and isinstance(sub["hi"].get("v"), int)
                      and sub["hi"]["v"] - (0 if sub.get("incl") is True else 1) == pat["hi"])
                ok = ok and ((p.get("k") == "bind" and p["name"] == pat["bind"]) or (p.get("k") == "prange" and pat["bind"] is None))
                if p.get("k") == "bind":
                    env.bind(p["id"], p["name"])
            else:
                ok = p.get("k") == "bind" and "sub" not in p and p["name"] == pat["name"]
                if ok:
                    env.bind(p["id"], p["name"])
            if not ok:
                raise Unrecognised("arm pattern %s, DSL pattern %s" % (H.render_pat(p), U.tok_text(v["tag_pat"])))
            g = arm.get("guard")
            if (g is None) != (v["guard"] is None):
                raise Unrecognised("guard presence differs from the DSL")
            if g is not None:
                gc = g["e"] if g.get("k") == "try" else None
                want_fn = v["guard"][0].get("s") if v["guard"] else None
                if not (gc and gc.get("k") == "call" and ((gc.get("callee") or {}).get("path") or "").startswith(CR + "::") and short((gc.get("callee") or {}).get("path")) == want_fn
                        and (gc.get("callee") or {}).get("dk") == "Fn" and len(gc["args"]) == 3):
                    raise Unrecognised("guard is not %s(..)?" % want_fn)
                a0, a1, a2 = gc["args"]
                l0, l1 = H.local_of(a0), H.local_of(a1)
                lit = H.peel(a2).get("lit") or {}
                gl = U.parse_lit(v["guard"][1]["ts"][-1]["s"]) if len(v["guard"]) == 3 else None
                if not (l0 and env.name_of(l0[0], l0[1]) == "pool" and l1 and env.name_of(l1[0], l1[1]) == pat.get("name")
                        and lit.get("t") == "bytes" and gl and bytes(lit["v"]) == gl[1]):
                    raise Unrecognised("guard arguments")
            # rename tag-derived variables: both sides use the source names, nothing to do
            return expected_read(v["items"]), x_read_seq(stmts_of(arm["body"]), env, ids[0], adt, v["name"])
        _report(R, rid, key, arm["sp"], go)
    if m["fallback"]:
        arm = mt["arms"][-1]
        tail = stmts_of(arm["body"])
        ok = arm["pat"].get("k") == "bind" and "sub" not in arm["pat"] and "guard" not in arm and len(tail) == 1 and is_err_value(tail[0])
        R.inst(rid, "expand:%s/_read:fallback" % name, ok, sp=arm["sp"], detail="the last arm turns every other tag into Err")


def _strip_conv(n):
    """Peel integer conversions that do not change the value: `as`, `T::from(x)`, `T::try_from(x).unwrap()`, `x.try_into().expect(..)`."""
    while True:
        n = H.peel(n, casts=True, tries=True)
        k = n.get("k")
        if k == "call" and H.callee_name(n) in ("from", "try_from") and len(n["args"]) == 1:
            n = n["args"][0]
        elif k == "mcall" and n["name"] in ("into", "try_into", "unwrap", "expect") :
            n = n["recv"]
        else:
            return n


def _gen_calls(root, T, names):
    """Calls (path or method syntax) of ClassFile::<name> inside root -> [(name, [all argument nodes incl. receiver])]"""
    out = []
    for n in H.walk(root):
        if n.get("k") in ("call", "mcall"):
            p = (n.get("callee") or {}).get("path") or ""
            for nm in names:
                if p == "%s::%s::%s" % (CR, T, nm):
                    out.append((nm, H.call_args(n), n))
    return out


def _root_id(n):
    return (H.local_of(H.peel(n)) or (None,))[0]


def _returns(body, call):
    """The function's value is the value of `call`: tail expression, `return call`, `Ok(call?)`, `call?; Ok(())`, `let r = call; r`."""
    sts = stmts_of(body)
    t = H.peel(sts[-1])
    if t.get("k") == "ret":
        t = H.peel(t["e"])
    if t is call:
        return True
    c = H.ctor_of(t)
    if c and c[1] == "Ok" and t.get("k") == "call":
        a = H.peel(t["args"][0])
        if a.get("k") == "try" and H.peel(a["e"]) is call:
            return True
        if a.get("k") == "tuple" and not a["es"]:
            return any(s.get("k") == "semi" and s["e"].get("k") == "try" and H.peel(s["e"]["e"]) is call for s in sts[:-1])
        loc = H.local_of(a)
        if loc:
            init = H.let_init_of(body, loc[0])
            return init is not None and H.peel(init, tries=True) is call and init.get("k") == "try"
    loc = H.local_of(t)
    if loc:
        init = H.let_init_of(body, loc[0])
        return init is not None and H.peel(init) is call
    return False


# what a public entry point may do besides calling the generated function: value conversions and Result plumbing, a fresh buffer, the
# sibling entry points; anything else (a loop, an assignment, a further call: validation, normalisation, an additional error) makes
# read/write differ from the DSL expansion
_API_HARMLESS = {"from", "into", "try_from", "try_into", "unwrap", "expect", "new", "with_capacity", "map", "map_err", "ok", "and_then",
                 "as_mut", "as_ref", "borrow_mut", "borrow", "by_ref", "clone", "capacity", "len", "branch", "from_residual", "from_output"}


def _api_extras(c, T, b, allowed_gen, depth=0, seen=()):
    """Constructs of a public entry point that are not part of `delegate to the generated function`: [text].  Calls of other hand-written
    functions of the crate are followed (a private helper the entry point delegates through is the same entry point)."""
    out = []
    gen = "%s::%s::" % (CR, T)
    for n in H.walk(b["body"]):
        k = n.get("k")
        if k in ("loop", "for"):
            out.append("a loop (%s)" % H.render(n)[:60])
        elif k in ("assign", "assignop"):
            out.append("an assignment (%s)" % H.render(n)[:60])
        elif k in ("call", "mcall"):
            cal = n.get("callee") or {}
            path = cal.get("path") or ""
            if (cal.get("dk") or "").startswith("Ctor") or cal.get("r") == "selfctor":
                continue
            if path.startswith(gen) and short(path) in allowed_gen:
                continue
            key = cal.get("inst_key") or cal.get("key")
            hb = c.by_key.get(key) if hasattr(c, "by_key") else None
            if hb is not None and isinstance(hb.get("body"), dict) and path.startswith(CR + "::") and key not in seen and depth < 2 \
                    and not (path.startswith(gen) and short(path).startswith("_")):
                out.extend(_api_extras(c, T, hb, allowed_gen, depth + 1, tuple(seen) + (key,)))
                continue
            if H.callee_name(n) in _API_HARMLESS and not path.startswith(CR + "::"):
                continue
            out.append("a call of %s" % (path or H.callee_name(n)))
    return out


def _api(c, R, rid):
    """impl ClassFile { to_bytes, write, read, length }: each delegates to the generated function (any call syntax, value
    conversions and `?`/`Ok(..)` re-wrapping allowed) and does nothing else."""
    T = "ClassFile"

    def body_call(fname):
        b = fn_of(c, T, fname)
        if not R.anchor(rid, "fn %s::%s" % (T, fname), b):
            return None, None
        gens = {"write": ("_write",), "read": ("_read",), "length": ("_len",), "to_bytes": ("_write", "_len")}[fname]
        extras = _api_extras(c, T, b, gens, seen=(b["key"],))
        R.inst(rid, "api:%s:nothing-else" % fname, not extras, sp=b["sp"], got=sorted(set(extras))[:8],
               expect="only the generated %s (plus value conversions / Result plumbing)" % " / ".join(gens),
               detail="ClassFile::%s is the plain DSL expansion: no further validation, normalisation or refusal between the caller and "
                      "the generated function" % fname)
        return b, _param_ids(b)

    b, ids = body_call("write")
    if b:
        cs = _gen_calls(b["body"], T, ["_write"])
        ok = len(cs) == 1 and [_root_id(a) for a in cs[0][1]] == ids[:2] and _returns(b["body"], cs[0][2])
        R.inst(rid, "api:write", ok, sp=b["sp"], expect="the result of self._write(writer)", got=H.render(b["body"])[:120])
    b, ids = body_call("read")
    if b:
        cs = _gen_calls(b["body"], T, ["_read"])
        ok = (len(cs) == 1 and len(cs[0][1]) == 2 and _root_id(cs[0][1][0]) == ids[0]
              and (H.ctor_of(H.peel(cs[0][1][1])) or (None, None))[1] == "None" and _returns(b["body"], cs[0][2]))
        R.inst(rid, "api:read", ok, sp=b["sp"], expect="the result of ClassFile::_read(reader, None)", got=H.render(b["body"])[:120])
    b, ids = body_call("length")
    if b:
        cs = _gen_calls(b["body"], T, ["_len"])
        sts = stmts_of(b["body"])
        t = H.peel(sts[-1])
        if t.get("k") == "ret":
            t = t["e"]
        loc = H.local_of(_strip_conv(t))
        if loc and H.let_init_of(b["body"], loc[0]) is not None:
            t = H.let_init_of(b["body"], loc[0])
        ok = len(cs) == 1 and [_root_id(a) for a in cs[0][1]] == ids[:1] and _strip_conv(t) is cs[0][2]
        R.inst(rid, "api:length", ok, sp=b["sp"], expect="self._len() converted to usize", got=H.render(b["body"])[:120])
    b, ids = body_call("to_bytes")
    if b:
        cs = _gen_calls(b["body"], T, ["_write", "write"])
        sts = stmts_of(b["body"])
        vec = _root_id(sts[-1]) if sts else None
        init = H.let_init_of(b["body"], vec) if vec is not None else None
        fresh = init is not None and init.get("k") == "call" and H.callee_name(init) in ("new", "with_capacity") and init.get("ty") == "alloc::vec::Vec<u8>"
        ok = fresh and len(cs) == 1 and [_root_id(a) for a in cs[0][1]] == [ids[0], vec]
        R.inst(rid, "api:to_bytes", ok, sp=b["sp"], expect="a fresh Vec<u8>, written once by self._write / self.write, returned", got=H.render(b["body"])[:160])


# ================================================================================================ R20.3 helpers
def check_pool_lookup(c, R, rid, fn, first_index, cp_adt):
    """see lib/c20_pool.py: decided by partial evaluation of the lookup function over four abstract pools"""
    from lib import c20_pool
    inline = {b["key"]: b for b in c.bodies if b.get("dk") == "Fn" and b["key"] != fn["key"] and b.get("body") is not None}
    variants = [v["name"] for v in (c.adts.get(cp_adt) or {}).get("variants", []) if v["name"] != "Utf8"]
    c20_pool.check(R, rid, fn, first_index, variants, inline=inline)


def needs_pool(M, tname, seen=None):
    seen = seen if seen is not None else set()
    if tname in seen:
        return False
    seen.add(tname)
    m = M.by_name.get(tname)
    if m is None:
        return False
    if m["kind"] == "enum":
        if any(v["guard"] is not None for v in m["variants"]):
            return True
        lists = [v["items"] for v in m["variants"]]
    else:
        lists = [m["items"]]
    for items in lists:
        for it in items:
            for t in (it.get("ty"), it.get("elem")):
                if t and t not in PRIMS and t != "Vec" and needs_pool(M, t, seen):
                    return True
    return False


def check_pool_threading(c, R, rid, M, root, fld):
    ps = fld.get("pool_set")
    ok = bool(ps) and len(ps) == 2 and ps[0].get("s") == "Some" and ps[1].get("d") == "(" and [t.get("s") for t in ps[1]["ts"]] == ["&", fld["name"]]
    R.inst(rid, "pool:handed-on", ok, sp=root["sp"], expect="; Some(&%s) on the pool field" % fld["name"], got=U.tok_text(ps) if ps else None,
           detail="structures after the constant pool are read with the pool that was just read (attribute dispatch needs it)")
    idx = root["items"].index(fld)
    early = [it["name"] for it in root["items"][:idx + 1] if any(t and needs_pool(M, t) for t in (it.get("ty"), it.get("elem")))]
    others = [it["name"] for it in root["items"] if it is not fld and it.get("pool_set") is not None]
    R.inst(rid, "pool:no-use-before-read", not early and not others, sp=root["sp"], got={"need the pool before it is read": early, "other pool assignments": others})


# ================================================================================================ R20.5 (macro definition)
def _rules_of(tokens):
    """macro_rules body -> [(matcher tokens, transcriber tokens)]"""
    out = []
    i = 0
    while i < len(tokens):
        if i + 2 < len(tokens) + 0 and tokens[i]["t"] == "group" and U.is_p(tokens[i + 1], "=>") and tokens[i + 2]["t"] == "group":
            out.append((tokens[i]["ts"], tokens[i + 2]["ts"]))
            i += 3
            if i < len(tokens) and U.is_p(tokens[i], ";"):
                i += 1
        else:
            raise Unrecognised("macro rule at token %d" % i)
    return out


def _notation_calls(ts, depth=0, out=None):
    """In-order list of (depth, mode, head metavariable of the last argument, all metavariables) of nested `notation!(..)` calls."""
    out = [] if out is None else out
    i = 0
    while i < len(ts):
        t = ts[i]
        if U.is_id(t, "notation") and i + 2 < len(ts) and U.is_p(ts[i + 1], "!") and ts[i + 2]["t"] == "group":
            args = U.split_commas(ts[i + 2]["ts"])
            mode = args[0][0]["s"] if args and args[0] and U.is_id(args[0][0]) else None
            last = args[-1] if args else []
            head = None
            for j in range(len(last) - 1):
                if U.is_p(last[j], "$") and U.is_id(last[j + 1]):
                    head = last[j + 1]["s"]
                    break
            out.append((depth, mode, head, U.tok_text(last)))
            i += 3
            continue
        if U.is_p(t, "$") and i + 1 < len(ts) and U.is_grp(ts[i + 1], "("):
            _notation_calls(ts[i + 1]["ts"], depth + 1, out)
            i += 2
            continue
        if t["t"] == "group":
            _notation_calls(t["ts"], depth, out)
        i += 1
    return out


def _fn_bodies(ts, out=None):
    """{fn name: body tokens} for `fn NAME (..) [-> ..] {..}` anywhere inside a transcriber."""
    out = {} if out is None else out
    i = 0
    while i < len(ts):
        t = ts[i]
        if U.is_id(t, "fn") and i + 1 < len(ts) and U.is_id(ts[i + 1]):
            j = i + 2
            while j < len(ts) and not U.is_grp(ts[j], "{"):
                j += 1
            if j < len(ts):
                out.setdefault(ts[i + 1]["s"], []).append(ts[j]["ts"])
            i = j + 1
            continue
        if t["t"] == "group":
            _fn_bodies(t["ts"], out)
        i += 1
    return out


def r20_5(c, R):
    rid = "R20.5"
    R.rule(rid, "in the definition of notation!: the struct rule and the enum rule each generate _write, _read and _len whose nested "
                "notation!(write|read|len, ..) calls enumerate the same item metavariables in the same order at the same repetition depth; "
                "the primitive arms for u8/u16/u32 use big-endian conversion, a buffer of the type's width and that width as length")
    defs = [d for d in c.raw.get("macro_defs", []) if d.get("defines") == "notation"]
    if not R.anchor(rid, "macro_rules! notation", len(defs) == 1):
        return
    d = defs[0]
    try:
        rules = _rules_of(d["tokens"])
    except Unrecognised as e:
        R.unrecognised(rid, "macro-rules", str(e), d.get("sp"))
        return
    n = 0
    for kind in ("struct", "enum"):
        rs = [(mt, tr) for mt, tr in rules if any(U.is_id(t, kind) for t in mt) and not (mt and U.is_id(mt[0]))]
        if not R.anchor(rid, "item rule for `%s`" % kind, len(rs) == 1, sp=d.get("sp")):
            continue
        fns = _fn_bodies(rs[0][1])
        seqs = {}
        for f in ("_write", "_read", "_len"):
            if not R.anchor(rid, "%s rule generates fn %s" % (kind, f), len(fns.get(f, [])) == 1, sp=d.get("sp")):
                continue
            mode = f[1:]
            calls = [x for x in _notation_calls(fns[f][0]) if x[1] != "check"]
            R.inst(rid, "macro:%s/%s:mode" % (kind, f), bool(calls) and all(x[1] == mode for x in calls), sp=d.get("sp"),
                   expect="only notation!(%s, ..) calls" % mode, got=sorted({str(x[1]) for x in calls}))
            # the first nested call handles the union tag: written/measured per arm, read once before the match
            seqs[f] = [((None if (kind == "enum" and i == 0) else x[0]), x[2]) for i, x in enumerate(calls)]
            n += 1
        if len(seqs) == 3:
            for f in ("_read", "_len"):
                srt = (lambda x: sorted(x, key=repr)) if f == "_len" else (lambda x: x)     # a sum has no order
                R.inst(rid, "macro:%s/_write-vs-%s" % (kind, f), srt(seqs["_write"]) == srt(seqs[f]) and None not in [h for _, h in seqs[f]], sp=d.get("sp"),
                       expect=seqs["_write"], got=seqs[f], detail="(repetition depth, item type metavariable) of every nested notation! call, in order")
                n += 1
    # primitive arms
    for ty, w in sorted(PRIMS.items()):
        for mode in ("write", "read", "len"):
            rs = [(mt, tr) for mt, tr in rules if mt and U.is_id(mt[0], mode) and U.is_id(mt[-1], ty) and U.is_p(mt[-2], ",")]
            key = "macro:prim:%s/%s" % (ty, mode)
            if len(rs) != 1:
                R.inst(rid, key, False, sp=d.get("sp"), detail="%d rules for (%s, .., %s)" % (len(rs), mode, ty))
                continue
            tr = rs[0][1]
            flat = U.tok_text(tr)
            idents = [t["s"] for t in _flat(tr) if t["t"] == "ident"]
            lits = [t["s"] for t in _flat(tr) if t["t"] == "lit"]
            if mode == "write":
                ok = "to_be_bytes" in idents and "write_all" in idents and "to_le_bytes" not in idents and "to_ne_bytes" not in idents
            elif mode == "read":
                ok = "from_be_bytes" in idents and ty in idents and "read_exact" in idents and [U.parse_lit(x) for x in lits] == [("int", 0), ("int", w)]
            else:
                ok = [U.parse_lit(x) for x in lits] == [("int", w)] and not idents
            R.inst(rid, key, ok, sp=d.get("sp"), got=flat[:160], expect="%s-byte big-endian" % w)
            n += 1
    R.floor(rid, 2 * 5 + 9)


def _flat(ts):
    for t in ts:
        if t["t"] == "group":
            yield from _flat(t["ts"])
        else:
            yield t
