"""C18 helper — symbolic evaluation of predicate-like code to boolean formulae over *subject atoms*.

A function (bool / Result / Option valued) is evaluated over its program text: every expression becomes an abstract
value, every control-flow construct a path condition.  The result is the formula under which the function returns a
"positive" value (true / Ok / Some), with early `return`, `?`, `bail!`, `if`/`else`, `match`, `if let`, `let … else`,
`matches!`, `&&`/`||`/`!`, `for … { if c { return k } }` loops, `Iterator::{all,any}`, `Option/Result` combinators and calls into
helper functions of the analysed crates (inlined) all mapped to the same formula.  No program semantics beyond this
boolean skeleton is modelled: anything else stays an opaque atom (which never matches a reference atom: fail closed).

Values
  ("b", formula, payload)   truth of a bool / Ok-ness of a Result / Some-ness of an Option (+ abstract payload or None)
  ("s", subject)            a string / code-point valued place, named canonically (`p0`, `p0.rsplit_once('$')#1`, `$e1`)
  ("c", python value)       literal or evaluated const (str, 1-char str, int)
  ("t", [values])           tuple            ("st", name, {field: value}) struct literal / tuple-struct constructor
  ("it", kind, subject)     iterator over the code points (`chars`) or the `split:<sep>` segments of a subject
  ("set", frozenset)        array of character constants
  ("n", "len", subject)     length of a subject
  ("fn", callee record) ("cl", closure node, env)   callable
  ("o", text)               opaque
Atoms (inside ("atom", X)):
  ("empty", S) ("has", S, ch) ("starts", S, str) ("ends", S, str) ("eq", S, lit) ("any", kind, S, inner formula)
  ("call", fn key, (arg subjects…)) ("iter", method, kind, S, const args) ("?", text)
"""
import itertools

from . import hir as H

TRUE = ("const", True)
FALSE = ("const", False)

IDENT_METHODS = {"as_inner", "as_str", "as_ref", "as_mut", "borrow", "deref", "to_string", "to_owned", "clone", "into", "as_java_str",
                 "as_slice", "into_inner", "as_deref", "cloned", "copied", "peekable", "by_ref", "iter", "into_iter", "rev", "to_java_string",
                 "into_string", "as_java_string"}
IDENT_FNS = {"from_str", "from", "into", "must_use", "from_inner_unchecked", "to_owned", "clone", "from_char", "as_ref", "borrow", "deref", "identity"}
ERR_SIDE = {"with_context", "context", "map_err", "ok_or", "ok_or_else", "ok", "inspect_err", "inspect"}


# ------------------------------------------------------------------------------------------------ formulae
def f_not(a):
    if a[0] == "const":
        return ("const", not a[1])
    if a[0] == "not":
        return a[1]
    return ("not", a)


def f_and(a, b):
    if a == FALSE or b == FALSE:
        return FALSE
    if a == TRUE:
        return b
    if b == TRUE or a == b:
        return a
    return ("and", a, b)


def f_or(a, b):
    if a == TRUE or b == TRUE:
        return TRUE
    if a == FALSE:
        return b
    if b == FALSE or a == b:
        return a
    return ("or", a, b)


def f_ite(c, a, b):
    if c == TRUE:
        return a
    if c == FALSE:
        return b
    if a == b:
        return a
    return f_or(f_and(c, a), f_and(f_not(c), b))


def f_all(xs):
    out = TRUE
    for x in xs:
        out = f_and(out, x)
    return out


def f_any(xs):
    out = FALSE
    for x in xs:
        out = f_or(out, x)
    return out


def atom(*x):
    return ("atom", tuple(x))


def atoms_of(f, out=None):
    if out is None:
        out = []
    if f[0] == "atom":
        if f[1] not in out:
            out.append(f[1])
    elif f[0] != "const":
        for x in f[1:]:
            atoms_of(x, out)
    return out


def ev_formula(f, env):
    t = f[0]
    if t == "const":
        return f[1]
    if t == "atom":
        return env[f[1]]
    if t == "and":
        return ev_formula(f[1], env) and ev_formula(f[2], env)
    if t == "or":
        return ev_formula(f[1], env) or ev_formula(f[2], env)
    if t == "not":
        return not ev_formula(f[1], env)
    raise ValueError(t)


def show(f):
    t = f[0]
    if t == "const":
        return str(f[1]).lower()
    if t == "atom":
        return show_atom(f[1])
    if t == "not":
        return "!" + show(f[1])
    if t == "and":
        return "(%s && %s)" % (show(f[1]), show(f[2]))
    if t == "or":
        return "(%s || %s)" % (show(f[1]), show(f[2]))
    return "?"


def show_atom(a):
    k = a[0]
    if k == "empty":
        return "empty(%s)" % a[1]
    if k == "has":
        return "has(%s,%r)" % (a[1], a[2])
    if k in ("starts", "ends", "eq", "contains"):
        return "%s(%s,%r)" % (k, a[1], a[2])
    if k == "any":
        return "any[%s of %s](%s)" % (a[1], a[2], show(a[3]))
    if k == "anyq":
        return "any[%s of %s]#%d" % (a[1], a[2], a[3])
    if k == "anyin":
        return "anychar(%s in %d code points)" % (a[1], len(a[2]))
    if k == "ge":
        return "%s>=%s" % (a[1], a[2])
    if k == "call":
        return "%s(%s)" % (a[1].rsplit("::", 2)[-2] + "::" + a[1].rsplit("::", 1)[-1] if "::" in a[1] else a[1], ",".join(map(str, a[2])))
    if k == "iter":
        return "%s.%s(%s)" % ("%s(%s)" % (a[2], a[3]), a[1], ",".join(repr(x) for x in a[4]))
    if k == "?":
        return "?" + str(a[1])
    return str(a)


# ------------------------------------------------------------------------------------------------ normalisation / equivalence
CHAR_UNIVERSE = list(range(0, 128)) + [0x100]


class Canon:
    """Normalises quantifier atoms so that equivalent spellings become the same atom:
    any[chars of S](c in T)  ->  OR_{t in T} has(S, t);   any[split of S](inner) -> class index of `inner` up to equivalence."""

    def __init__(self):
        self.classes = []       # (kind, S, normalised inner formula)

    def norm(self, f):
        t = f[0]
        if t == "const":
            return f
        if t == "atom":
            a = f[1]
            if a[0] == "any":
                kind, S, inner = a[1], a[2], self.norm(a[3])
                if kind == "chars":
                    var = a[4]
                    T = self._char_set(inner, var)
                    if T is not None:
                        if len(T) <= 24 and all(c < 128 for c in T):
                            return f_any([atom("has", S, chr(c)) for c in sorted(T)])
                        return atom("anyin", S, frozenset(T))
                    return atom("any", kind, S, inner, a[4])
                # segment quantifier: rename the bound variable, then class up to equivalence
                inner = rename_subject(inner, a[4], "$e")
                for i, (k2, s2, in2) in enumerate(self.classes):
                    if k2 == kind and s2 == S and equivalent(inner, in2)[0]:
                        return atom("anyq", kind, S, i)
                self.classes.append((kind, S, inner))
                return atom("anyq", kind, S, len(self.classes) - 1)
            return f
        return (t,) + tuple(self.norm(x) for x in f[1:])

    @staticmethod
    def _char_set(inner, var):
        ats = atoms_of(inner)
        for a in ats:
            if not (a[0] == "eq" and a[1] == var and (isinstance(a[2], int) or (isinstance(a[2], str) and len(a[2]) == 1))):
                return None
        out = set()
        for cp in CHAR_UNIVERSE:
            env = {a: ((ord(a[2]) if isinstance(a[2], str) else a[2]) == cp) for a in ats}
            if ev_formula(inner, env):
                out.add(cp)
        return out


def rename_subject(f, old, new):
    t = f[0]
    if t == "const":
        return f
    if t == "atom":
        return ("atom", _ren(f[1], old, new))
    return (t,) + tuple(rename_subject(x, old, new) for x in f[1:])


def _ren(x, old, new):
    if isinstance(x, str):
        return x.replace(old, new) if old in x else x
    if isinstance(x, tuple):
        if x and x[0] in ("const", "atom", "and", "or", "not"):
            return rename_subject(x, old, new)
        return tuple(_ren(y, old, new) for y in x)
    return x


def consistent(env):
    """Rules out atom assignments that no string can realise (so that semantically equal predicates that differ only there compare equal)."""
    by_subject = {}
    for a, v in env.items():
        if a[0] in ("empty", "has", "starts", "ends", "eq") and isinstance(a[1], str):
            by_subject.setdefault(a[1], []).append((a, v))
    for S, items in by_subject.items():
        empty = [v for a, v in items if a[0] == "empty"]
        eqs = [a[2] for a, v in items if a[0] == "eq" and v and isinstance(a[2], str)]
        if len(set(eqs)) > 1:
            return False
        for a, v in items:
            if empty and empty[0]:
                if a[0] == "has" and v:
                    return False
                if a[0] in ("starts", "ends") and v and a[2] != "":
                    return False
                if a[0] == "eq" and v and a[2] != "":
                    return False
            if a[0] in ("starts", "ends") and v and isinstance(a[2], str):
                for b, w in items:
                    if b[0] == "has" and isinstance(b[2], str) and b[2] in a[2] and not w:
                        return False
        if eqs:
            lit = eqs[0]
            for a, v in items:
                if a[0] == "empty" and v != (lit == ""):
                    return False
                if a[0] == "has" and isinstance(a[2], str) and v != (a[2] in lit):
                    return False
                if a[0] == "starts" and isinstance(a[2], str) and v != lit.startswith(a[2]):
                    return False
                if a[0] == "ends" and isinstance(a[2], str) and v != lit.endswith(a[2]):
                    return False
    return True


def equivalent(f, g, limit=16):
    """(equal?, counterexample) over all realisable assignments of the atoms of f and g."""
    names = atoms_of(f)
    names = names + [a for a in atoms_of(g) if a not in names]
    if len(names) > limit:
        return False, {"too-many-atoms": len(names)}
    for vals in itertools.product([False, True], repeat=len(names)):
        env = dict(zip(names, vals))
        if not consistent(env):
            continue
        if ev_formula(f, env) != ev_formula(g, env):
            return False, {show_atom(a): v for a, v in env.items()}
    return True, None


def implies(f, g):
    return equivalent(f_and(f, f_not(g)), FALSE)


# ------------------------------------------------------------------------------------------------ the evaluator
class _Frame:
    def __init__(self, kind):
        self.kind = kind          # fn | closure | loop
        self.returns = []         # (pc, value)
        self.stopped = False


class Sym:
    def __init__(self, crates, opaque_call=None, max_depth=6):
        self.fns = {}
        for c in crates:
            for b in c.bodies:
                self.fns.setdefault(b["key"], b)
        self.opaque_call = opaque_call or (lambda callee, body: False)
        self.max_depth = max_depth
        self.depth = 0
        self.qdepth = 0
        self.frames = []
        self.pc_stack = []
        self.unrec = []           # (text, sp): constructs that were skipped over
        self.watch = {}           # id(node) -> [(full pc, [arg values])]
        self.watch_ids = set()
        self.n_opaque = 0

    # -------------------------------------------------------------- entry points
    def fn_value(self, body, args=None):
        """Abstract return value of a function body; parameters are the subjects p0, p1, … unless given."""
        env = {}
        for i, p in enumerate(body["params"]):
            v = args[i] if args is not None and i < len(args) else ("s", "p%d" % i)
            self.bind(p, v, env)
        return self.run_frame("fn", body["body"], env)

    def fn_exits(self, body, args=None):
        """Every way the function completes: [(path condition, returned value)] (early returns, `?` exits, the tail)."""
        env = {}
        for i, p in enumerate(body["params"]):
            v = args[i] if args is not None and i < len(args) else ("s", "p%d" % i)
            self.bind(p, v, env)
        fr = _Frame("fn")
        self.frames.append(fr)
        tails = []
        try:
            self.tail_exits(body["body"], env, TRUE, tails)
        finally:
            self.frames.pop()
        return [(p, x) for p, x in fr.returns + tails if p != FALSE]

    def tail_exits(self, n, env, pc, out):
        """Evaluates an expression in tail position, keeping the alternatives of `if` / `match` / `if let` apart."""
        n0 = H.peel(n, refs=False, derefs=False)
        k = n0.get("k")
        if k == "block":
            for s_ in n0["stmts"]:
                if pc == FALSE:
                    return
                _, pc = self.ev(s_, env, pc)
            if "tail" in n0 and pc != FALSE:
                self.tail_exits(n0["tail"], env, pc, out)
            elif pc != FALSE:
                out.append((pc, ("t", [])))
            return
        if k == "if" and "else" in n0:
            e_then = dict(env)
            cv, pc_c = self.ev(n0["cond"], e_then, pc)
            fc = self.positive(cv)
            self.tail_exits(n0["then"], e_then, f_and(pc_c, fc), out)
            self.tail_exits(n0["else"], dict(env), f_and(pc_c, f_not(fc)), out)
            return
        if k == "match":
            sv, pc = self.ev(n0["scrut"], env, pc)
            prev = FALSE
            for a in n0["arms"]:
                e2 = dict(env)
                c = self.bind(a["pat"], sv, e2)
                if "guard" in a:
                    g, _ = self.ev(a["guard"], e2, f_and(pc, f_and(c, f_not(prev))))
                    c = f_and(c, self.positive(g))
                taken = f_and(c, f_not(prev))
                prev = f_or(prev, c)
                if taken != FALSE:
                    self.tail_exits(a["body"], e2, f_and(pc, taken), out)
            return
        v, pc = self.ev(n0, env, pc)
        if pc != FALSE:
            out.append((pc, v))

    def fn_formula(self, body, args=None):
        return self.positive(self.fn_value(body, args))

    def run_frame(self, kind, node, env, pc=TRUE):
        fr = _Frame(kind)
        self.frames.append(fr)
        try:
            v, pc_end = self.ev(node, env, pc)
        finally:
            self.frames.pop()
        return self.join([(p, x) for p, x in fr.returns] + [(pc_end, v)])

    def join(self, outs):
        outs = [(p, v) for p, v in outs if p != FALSE]
        if not outs:
            return ("b", FALSE, None)
        if len(outs) == 1:
            return outs[0][1]
        if all(v[0] == "b" for _, v in outs):
            f = f_any([f_and(p, v[1]) for p, v in outs])
            pls = [v[2] for p, v in outs if v[2] is not None and f_and(p, v[1]) != FALSE]
            payload = pls[0] if pls and all(x == pls[0] for x in pls) else (self.merge_payload(outs) if pls else None)
            return ("b", f, payload)
        first = outs[0][1]
        if all(v == first for _, v in outs):
            return first
        return self.opaque("<merge>")

    def merge_payload(self, outs):
        """Payloads of alternative positive outcomes: componentwise ite when they are tuples/structs of the same shape."""
        pos = [(f_and(p, v[1]), v[2]) for p, v in outs if v[2] is not None and f_and(p, v[1]) != FALSE]
        return self.merge_vals(pos)

    def merge_vals(self, pvs):
        vals = [v for _, v in pvs]
        if all(v == vals[0] for v in vals):
            return vals[0]
        k = vals[0][0]
        if all(v[0] == "b" for v in vals):
            pos = [(f_and(p, v[1]), v[2]) for p, v in pvs if v[2] is not None and f_and(p, v[1]) != FALSE]
            payload = None if not pos else (pos[0][1] if len(pos) == 1 else self.merge_vals(pos))
            return ("b", f_any([f_and(p, v[1]) for p, v in pvs]), payload)
        if k == "t" and all(v[0] == "t" and len(v[1]) == len(vals[0][1]) for v in vals):
            return ("t", [self.merge_vals([(p, v[1][i]) for p, v in pvs]) for i in range(len(vals[0][1]))])
        if k == "st" and all(v[0] == "st" and v[1] == vals[0][1] and set(v[2]) == set(vals[0][2]) for v in vals):
            return ("st", vals[0][1], {fn: self.merge_vals([(p, v[2][fn]) for p, v in pvs]) for fn in vals[0][2]})
        return self.opaque("<merge>")

    def positive(self, v):
        if v[0] == "b":
            return v[1]
        return atom("?", "value " + self.show_val(v))

    def opaque(self, text):
        return ("o", text)

    def show_val(self, v):
        k = v[0]
        if k == "b":
            return show(v[1])
        if k in ("s", "o"):
            return str(v[1])
        if k == "c":
            return repr(v[1])
        if k == "t":
            return "(%s)" % ", ".join(self.show_val(x) for x in v[1])
        if k == "st":
            return "%s{%s}" % (v[1], ", ".join("%s: %s" % (a, self.show_val(b)) for a, b in sorted(v[2].items())))
        if k == "it":
            return "%s(%s)" % (v[1], v[2])
        return k

    def full_pc(self, pc):
        out = pc
        for p in self.pc_stack:
            out = f_and(p, out)
        return out

    # -------------------------------------------------------------- patterns
    def bind(self, p, v, env):
        """Bind pattern p to value v; returns the formula under which the pattern matches."""
        k = p.get("k")
        if k == "wild":
            return TRUE
        if k == "bind":
            c = TRUE
            if "sub" in p:
                c = self.bind(p["sub"], v, env)
            env[p["id"]] = v
            return c
        if k in ("pref", "pbox", "pderef"):
            return self.bind(p["pat"], v, env)
        if k == "por":
            cs = []
            for alt in p["pats"]:
                cs.append(self.bind(alt, v, env))
            return f_any(cs)
        if k == "ptuple":
            pats = p["pats"]
            if v[0] == "t" and len(v[1]) == len(pats) and p.get("ddpos") is None:
                return f_all([self.bind(sp, sv, env) for sp, sv in zip(pats, v[1])])
            base = v[1] if v[0] in ("s", "o") else "?"
            return f_all([self.bind(sp, (v[0] if v[0] in ("s", "o") else "o", "%s#%d" % (base, i)), env) for i, sp in enumerate(pats)])
        if k in ("ptuplestruct", "pstruct"):
            var = p["res"].get("variant")
            subs = p["pats"] if k == "ptuplestruct" else [f["pat"] for f in p["fields"]]
            if var in ("Some", "Ok", "Err", "None") and v[0] == "b":
                if var in ("Some", "Ok"):
                    for sp in subs:
                        self.bind(sp, v[2] if v[2] is not None else self.opaque("payload"), env)
                    return v[1]
                for sp in subs:
                    self.bind(sp, self.opaque("error"), env)
                return f_not(v[1])
            if v[0] == "st":
                names = [str(i) for i in range(len(subs))] if k == "ptuplestruct" else [f["name"] for f in p["fields"]]
                cs = []
                for nm, sp in zip(names, subs):
                    cs.append(self.bind(sp, v[2].get(nm, self.opaque("?." + nm)), env))
                want = var or (p["res"].get("adt") or p["res"].get("path") or "?").rsplit("::", 1)[-1]
                if want != v[1]:
                    return FALSE
                return f_all(cs)
            for sp in subs:
                self.bind(sp, self.opaque("payload"), env)
            if var in ("Some", "Ok", "Err", "None"):
                f = self.positive(v)
                return f if var in ("Some", "Ok") else f_not(f)
            return atom("?", "pattern %s ~ %s" % (H.render_pat(p), self.show_val(v)))
        if k == "pexpr":
            e = p["e"]
            if e.get("variant"):
                var = e["variant"]
                if var in ("None", "Some", "Ok", "Err") and v[0] == "b":
                    return v[1] if var in ("Some", "Ok") else f_not(v[1])
                if v[0] == "st":
                    return TRUE if v[1] == var and not v[2] else FALSE
                return atom("?", "pattern %s ~ %s" % (var, self.show_val(v)))
            pv = e.get("v") if "t" in e else e.get("value")
            if isinstance(pv, dict) and "raw_le" in pv:
                pv = pv["raw_le"]
            return self.equals(v, ("c", pv))
        if k == "prange":
            def val(e):
                x = e.get("v") if "t" in e else e.get("value")
                if isinstance(x, dict) and "raw_le" in x:
                    x = x["raw_le"]
                return ord(x) if isinstance(x, str) and len(x) == 1 else x
            lo = val(p["lo"]) if p.get("lo") else None
            hi = val(p["hi"]) if p.get("hi") else None
            if isinstance(lo, int) and isinstance(hi, int) and hi - lo <= 256:
                return f_any([self.equals(v, ("c", x)) for x in range(lo, hi + (1 if p.get("incl") else 0))])
        return atom("?", "pattern %s" % H.render_pat(p))

    def equals(self, a, b):
        if a[0] == "c" and b[0] == "c":
            x, y = a[1], b[1]
            if isinstance(x, str) and len(x) == 1 and isinstance(y, int) and not isinstance(y, bool):
                x = ord(x)
            if isinstance(y, str) and len(y) == 1 and isinstance(x, int) and not isinstance(x, bool):
                y = ord(y)
            return TRUE if x == y else FALSE
        if a[0] == "c":
            a, b = b, a
        if a[0] == "s" and b[0] == "c":
            v = b[1]
            if isinstance(v, bool):
                return atom("?", "eq bool")
            if v == "":
                return atom("empty", a[1])
            return atom("eq", a[1], v)
        if a[0] == "b" and b[0] == "c" and isinstance(b[1], bool):
            return a[1] if b[1] else f_not(a[1])
        if a[0] == "b" and b[0] == "b":
            return f_or(f_and(a[1], b[1]), f_and(f_not(a[1]), f_not(b[1])))
        if a[0] == "n" and b[0] == "c" and b[1] == 0:
            return atom("empty", a[2])
        if a[0] == "t" and b[0] == "t" and len(a[1]) == len(b[1]):
            return f_all([self.equals(x, y) for x, y in zip(a[1], b[1])])
        return atom("?", "%s == %s" % (self.show_val(a), self.show_val(b)))

    # -------------------------------------------------------------- expressions
    def ev(self, n, env, pc):
        """-> (value, pc after normal completion)"""
        k = n.get("k")
        m = getattr(self, "ev_" + k, None) if k else None
        if m is None:
            return self.opaque(H.render(n)[:60]), pc
        return m(n, env, pc)

    def note_watch(self, n, pc, vals):
        if id(n) in self.watch_ids:
            self.watch.setdefault(id(n), []).append((self.full_pc(pc), vals))

    def ev_semi(self, n, env, pc):
        _, pc = self.ev(n["e"], env, pc)
        return ("t", []), pc

    def ev_ref(self, n, env, pc):
        return self.ev(n["e"], env, pc)

    def ev_cast(self, n, env, pc):
        return self.ev(n["e"], env, pc)

    def ev_await(self, n, env, pc):
        return self.ev(n["e"], env, pc)

    def ev_un(self, n, env, pc):
        v, pc = self.ev(n["e"], env, pc)
        if n["op"] == "deref":
            return v, pc
        if n["op"] == "!":
            if v[0] == "b":
                return ("b", f_not(v[1]), None), pc
            return ("b", f_not(self.positive(v)), None), pc
        return self.opaque(H.render(n)[:60]), pc

    def ev_lit(self, n, env, pc):
        lit = n.get("lit") or {}
        if lit.get("t") == "bool":
            return ("b", TRUE if lit["v"] else FALSE, None), pc
        if lit.get("t") in ("str", "char", "int"):
            return ("c", lit["v"]), pc
        return self.opaque(H.render(n)[:40]), pc

    def ev_path(self, n, env, pc):
        r = n["res"]
        if r.get("r") == "local":
            if r["id"] in env:
                return env[r["id"]], pc
            return self.opaque(r["name"]), pc
        if r.get("variant") and (r.get("dk", "").startswith("Ctor") or r.get("dk") == "Variant"):
            if r["variant"] == "None":
                return ("b", FALSE, None), pc
            return ("st", r["variant"], {}), pc
        if "value" in r and r["value"] is not None:
            v = r["value"]
            if isinstance(v, bool):
                return ("b", TRUE if v else FALSE, None), pc
            if isinstance(v, dict) and "raw_le" in v:
                v = v["raw_le"]
            if isinstance(v, (int, str)):
                return ("c", v), pc
            if isinstance(v, (list, tuple)) and v and all(isinstance(x, (int, str)) and not isinstance(x, bool) for x in v):
                return ("set", frozenset(v)), pc
        if r.get("dk") in ("Fn", "AssocFn"):
            return ("fn", r), pc
        return self.opaque(H.render(n)[:60]), pc

    def ev_tuple(self, n, env, pc):
        vs = []
        for e in n["es"]:
            v, pc = self.ev(e, env, pc)
            vs.append(v)
        return ("t", vs), pc

    def ev_array(self, n, env, pc):
        vs = []
        for e in n["es"]:
            v, pc = self.ev(e, env, pc)
            vs.append(v)
        if vs and all(v[0] == "c" and isinstance(v[1], (str, int)) for v in vs):
            return ("set", frozenset(v[1] for v in vs)), pc
        return self.opaque("[…]"), pc

    def ev_struct(self, n, env, pc):
        name = n.get("variant") or (n.get("adt") or "?").rsplit("::", 1)[-1]
        fs = {}
        for f in n["fields"]:
            v, pc = self.ev(f["e"], env, pc)
            fs[f["name"]] = v
        if isinstance(n.get("base"), dict):
            _, pc = self.ev(n["base"], env, pc)
        return ("st", name, fs), pc

    def ev_field(self, n, env, pc):
        v, pc = self.ev(n["e"], env, pc)
        if v[0] == "st" and n["name"] in v[2]:
            return v[2][n["name"]], pc
        if v[0] == "t" and n["name"].isdigit() and int(n["name"]) < len(v[1]):
            return v[1][int(n["name"])], pc
        if v[0] in ("s", "o"):
            return (v[0], "%s.%s" % (v[1], n["name"])), pc
        return self.opaque(H.render(n)[:60]), pc

    def ev_index(self, n, env, pc):
        v, pc = self.ev(n["e"], env, pc)
        _, pc = self.ev(n["i"], env, pc)
        return self.opaque(H.render(n)[:60]), pc

    def ev_closure(self, n, env, pc):
        return ("cl", n, env), pc

    def ev_block(self, n, env, pc):
        for s in n["stmts"]:
            if pc == FALSE:
                break
            _, pc = self.ev(s, env, pc)
        if "tail" in n and pc != FALSE:
            return self.ev(n["tail"], env, pc)
        return ("t", []), pc

    def ev_let(self, n, env, pc):
        if "init" not in n:
            for (i, nm) in H.pat_bindings(n["pat"]):
                env[i] = self.opaque(nm)
            return ("t", []), pc
        v, pc = self.ev(n["init"], env, pc)
        e2 = {}
        c = self.bind(n["pat"], v, e2)
        if "els" in n:
            self.ev(n["els"], dict(env), f_and(pc, f_not(c)))     # diverges: its returns are recorded
            pc = f_and(pc, c)
        env.update(e2)
        return ("t", []), pc

    def ev_letexpr(self, n, env, pc):
        v, pc = self.ev(n["init"], env, pc)
        c = self.bind(n["pat"], v, env)
        return ("b", c, None), pc

    def ev_ret(self, n, env, pc):
        v = ("t", [])
        if "e" in n:
            v, pc = self.ev(n["e"], env, pc)
        self.ret_frame().returns.append((pc, v))
        return self.opaque("!"), FALSE

    def ret_frame(self):
        for fr in reversed(self.frames):
            if fr.kind in ("fn", "closure", "loop"):
                return fr
        return self.frames[0]

    def ev_break(self, n, env, pc):
        fr = self.frames[-1] if self.frames else None
        if fr is None or fr.kind != "loop":
            self.unrec.append(("break outside a recognised loop", n.get("sp")))
        else:
            fr.breaks = f_or(getattr(fr, "breaks", FALSE), pc)
        return self.opaque("!"), FALSE

    def ev_continue(self, n, env, pc):
        return self.opaque("!"), FALSE

    def ev_try(self, n, env, pc):
        v, pc = self.ev(n["e"], env, pc)
        f = self.positive(v)
        self.ret_frame().returns.append((f_and(pc, f_not(f)), ("b", FALSE, None)))
        payload = v[2] if v[0] == "b" and v[2] is not None else self.opaque(H.render(n["e"])[:60] + "?")
        return payload, f_and(pc, f)

    def ev_bin(self, n, env, pc):
        op = n["op"]
        if op in ("&&", "||"):
            l, pc_l = self.ev(n["l"], env, pc)
            fl = self.positive(l)
            cont = fl if op == "&&" else f_not(fl)
            r, pc_r = self.ev(n["r"], env, f_and(pc_l, cont))
            fr = self.positive(r)
            f = f_and(fl, fr) if op == "&&" else f_or(fl, fr)
            return ("b", f, None), f_or(f_and(pc_l, f_not(cont)), pc_r)
        l, pc = self.ev(n["l"], env, pc)
        r, pc = self.ev(n["r"], env, pc)
        if op == "==":
            return ("b", self.equals(l, r), None), pc
        if op == "!=":
            return ("b", f_not(self.equals(l, r)), None), pc
        if op in ("<", "<=", ">", ">="):
            for a, b, o in ((l, r, op), (r, l, {"<": ">", "<=": ">=", ">": "<", ">=": "<="}[op])):
                if a[0] == "s" and b[0] == "c" and isinstance(b[1], int) and not isinstance(b[1], bool):
                    # S >= k  |  S > k == S >= k+1  |  S < k == !(S >= k)  |  S <= k == !(S >= k+1)
                    kk = b[1] + (1 if o in (">", "<=") else 0)
                    f = atom("ge", a[1], kk)
                    return ("b", f if o in (">", ">=") else f_not(f), None), pc
            # length comparisons with 0 / 1
            for a, b, o in ((l, r, op), (r, l, {"<": ">", "<=": ">=", ">": "<", ">=": "<="}[op])):
                if a[0] == "n" and b[0] == "c" and isinstance(b[1], int):
                    e = atom("empty", a[2])
                    if (o, b[1]) in ((">", 0), (">=", 1)):
                        return ("b", f_not(e), None), pc
                    if (o, b[1]) in (("<", 1), ("<=", 0)):
                        return ("b", e, None), pc
                if a[0] == "c" and b[0] == "c" and isinstance(a[1], int) and isinstance(b[1], int):
                    res = {"<": a[1] < b[1], "<=": a[1] <= b[1], ">": a[1] > b[1], ">=": a[1] >= b[1]}[o]
                    return ("b", TRUE if res else FALSE, None), pc
        if n.get("ty") == "bool":
            return ("b", atom("?", "%s %s %s" % (self.show_val(l), op, self.show_val(r))), None), pc
        return self.opaque(H.render(n)[:60]), pc

    def ev_assign(self, n, env, pc):
        v, pc = self.ev(n["r"], env, pc)
        loc = H.local_of(n["l"])
        if loc:
            env[loc[0]] = v
        return ("t", []), pc

    def ev_assignop(self, n, env, pc):
        r, pc = self.ev(n["r"], env, pc)
        loc = H.local_of(n["l"])
        self.note_watch(n, pc, [env.get(loc[0]) if loc else None, r])
        if loc:
            self.n_opaque += 1
            env[loc[0]] = ("s", "$v%d" % self.n_opaque)
        return ("t", []), pc

    def merge_env(self, env, branches):
        """branches: [(cond, env_i)] -> writes the merged bindings into env."""
        keys = set()
        for _, e in branches:
            keys |= set(e.keys())
        for kk in keys:
            vals = [(c, e[kk]) for c, e in branches if kk in e]
            if len(vals) != len(branches):
                if kk in env:
                    continue
                continue
            first = vals[0][1]
            if all(v == first for _, v in vals):
                env[kk] = first
            elif all(v[0] == "b" for _, v in vals):
                env[kk] = ("b", f_any([f_and(c, v[1]) for c, v in vals]), None)
            else:
                env[kk] = self.opaque("<merge>")

    def ev_if(self, n, env, pc):
        c0 = H.peel(n["cond"], refs=False)
        e_then = dict(env)
        cv, pc_c = self.ev(n["cond"], e_then, pc)       # let-chains bind into e_then
        fc = self.positive(cv)
        if c0.get("k") != "letexpr" and not any(x.get("k") == "letexpr" for x in H.walk(n["cond"])):
            # a plain condition may have assigned nothing; keep env in sync
            pass
        tv, pc_t = self.ev(n["then"], e_then, f_and(pc_c, fc))
        e_else = dict(env)
        if "else" in n:
            ev_, pc_e = self.ev(n["else"], e_else, f_and(pc_c, f_not(fc)))
        else:
            ev_, pc_e = ("t", []), f_and(pc_c, f_not(fc))
        # merge environments of locals that existed before
        live = []
        if pc_t != FALSE:
            live.append((fc, {k_: v for k_, v in e_then.items() if k_ in env}))
        if pc_e != FALSE:
            live.append((f_not(fc), {k_: v for k_, v in e_else.items() if k_ in env}))
        if live:
            self.merge_env(env, live)
        pc_out = f_or(pc_t, pc_e)
        outs = []
        if pc_t != FALSE:
            outs.append((fc, tv))
        if pc_e != FALSE:
            outs.append((f_not(fc), ev_))
        if not outs:
            return self.opaque("!"), FALSE
        if len(outs) == 1:
            return outs[0][1], pc_out
        return self.merge_vals(outs), pc_out

    def ev_match(self, n, env, pc):
        sv, pc = self.ev(n["scrut"], env, pc)
        prev = FALSE
        outs = []
        envs = []
        pc_out = FALSE
        for a in n["arms"]:
            e2 = dict(env)
            c = self.bind(a["pat"], sv, e2)
            if "guard" in a:
                g, _ = self.ev(a["guard"], e2, f_and(pc, f_and(c, f_not(prev))))
                c = f_and(c, self.positive(g))
            taken = f_and(c, f_not(prev))
            prev = f_or(prev, c)
            if taken == FALSE:
                continue
            v, p = self.ev(a["body"], e2, f_and(pc, taken))
            if p != FALSE:
                outs.append((taken, v))
                envs.append((taken, {k_: x for k_, x in e2.items() if k_ in env}))
            pc_out = f_or(pc_out, p)
        if envs:
            self.merge_env(env, envs)
        if not outs:
            return self.opaque("!"), FALSE
        if len(outs) == 1:
            return outs[0][1], pc_out
        return self.merge_vals(outs), pc_out

    # -------------------------------------------------------------- loops
    def ev_for(self, n, env, pc):
        it, pc = self.ev(n["iter"], env, pc)
        if it[0] == "it":
            self.qdepth += 1
            var = ("$c%d" if it[1] == "chars" else "$e%d") % self.qdepth
            fr = _Frame("loop")
            self.frames.append(fr)
            self.pc_stack.append(pc)
            try:
                e2 = dict(env)
                pre = self.loop_vars(n["body"], e2)
                self.bind(n["pat"], ("s", var), e2)
                self.ev(n["body"], e2, TRUE)
            finally:
                self.frames.pop()
                self.pc_stack.pop()
                self.qdepth -= 1
            assigned = [k_ for k_ in env if e2.get(k_) != env[k_]] + pre
            vals = [v for _, v in fr.returns]
            consts = [v for v in vals if v[0] == "b" and v[1] in (TRUE, FALSE)]
            if not assigned and getattr(fr, "breaks", FALSE) == FALSE and len(consts) == len(vals) and len(set(v[1] for v in vals)) <= 1:
                if vals:
                    cond = f_any([p for p, _ in fr.returns])
                    q = atom("any", it[1], it[2], cond, var)
                    self.ret_frame().returns.append((f_and(pc, q), ("b", vals[0][1], None)))
                    pc = f_and(pc, f_not(q))
                return ("t", []), pc
            # not a pure first-match loop: keep its returns conservatively (see ev_loop)
            return self.havoc_loop(n, env, pc, fr, assigned)
        return self.ev_loop(n, env, pc)

    def ev_loop(self, n, env, pc):
        fr = _Frame("loop")
        self.frames.append(fr)
        self.pc_stack.append(pc)
        try:
            e2 = dict(env)
            pre = self.loop_vars(n["body"], e2)
            if n.get("k") == "for":
                for (i, nm) in H.pat_bindings(n["pat"]):
                    e2[i] = self.opaque(nm)
            self.ev(n["body"], e2, TRUE)
        finally:
            self.frames.pop()
            self.pc_stack.pop()
        assigned = [k_ for k_ in env if e2.get(k_) != env[k_]] + pre
        return self.havoc_loop(n, env, pc, fr, assigned)

    def loop_vars(self, body, env):
        """Locals of the enclosing scope that the loop body assigns: their value is unknown at the loop head."""
        out = []
        for x in H.walk(body):
            if x.get("k") in ("assign", "assignop"):
                loc = H.local_of(x["l"])
                if loc and loc[0] in env and loc[0] not in out:
                    out.append(loc[0])
        for i in out:
            self.n_opaque += 1
            env[i] = ("s", "$v%d" % self.n_opaque)
        return out

    def havoc_loop(self, n, env, pc, fr, assigned):
        """A loop that is not understood: every `return` inside it may happen (under an opaque iteration atom); locals it assigns are unknown afterwards."""
        self.n_opaque += 1
        it = atom("?", "iteration#%d" % self.n_opaque)
        for p, v in fr.returns:
            self.ret_frame().returns.append((f_and(pc, f_and(it, p)), v))
        for k_ in assigned:
            env[k_] = self.opaque("<assigned in loop>")
        self.unrec.append(("loop " + H.render(n)[:70], n.get("sp")))
        return ("t", []), pc

    # -------------------------------------------------------------- calls
    def apply(self, fv, args, pc, sp=None):
        """Apply a callable value; -> value"""
        if fv[0] == "cl":
            node, cenv = fv[1], dict(fv[2])
            for p, a in zip(node["params"], args):
                self.bind(p, a, cenv)
            self.pc_stack.append(pc)
            try:
                return self.run_frame("closure", node["body"], cenv)
            finally:
                self.pc_stack.pop()
        if fv[0] == "fn":
            return self.call_def(fv[1], args, pc, None)
        return self.opaque("apply")

    def call_def(self, c, args, pc, n):
        key = c.get("inst_key") or c.get("key")
        body = self.fns.get(key)
        name = (c.get("path") or "").rsplit("::", 1)[-1]
        if body is not None:
            if self.opaque_call(c, body):
                subs = tuple(a[1] if a[0] in ("s", "c") else self.show_val(a) for a in args)
                return ("b", atom("call", key, subs), None)
            out = body.get("output") or ""
            predicate = out == "bool" or out.startswith(("core::result::Result<", "core::option::Option<"))
            if predicate and self.depth < self.max_depth:
                self.depth += 1
                self.pc_stack.append(pc)
                saved_q = self.qdepth
                try:
                    return self.fn_value(body, args)
                finally:
                    self.pc_stack.pop()
                    self.depth -= 1
                    self.qdepth = saved_q
        if (name in IDENT_FNS or name in IDENT_METHODS) and args:
            return args[-1] if name == "must_use" else args[0]
        ty = (n or {}).get("ty") or ""
        text = "%s(%s)" % (name, ", ".join(self.show_val(a) for a in args))
        if ty == "bool" or ty.startswith(("core::result::Result<", "core::option::Option<")):
            return ("b", atom("?", text), None)
        return self.opaque(text)

    def ev_call(self, n, env, pc):
        c = n.get("callee") or {}
        args = []
        for a in n["args"]:
            v, pc = self.ev(a, env, pc)
            args.append(v)
        self.note_watch(n, pc, args)
        if c.get("dk", "").startswith("Ctor"):
            var = c.get("variant") or (c.get("adt") or "?").rsplit("::", 1)[-1]
            if var in ("Some", "Ok"):
                return ("b", TRUE, args[0] if args else None), pc
            if var == "Err":
                return ("b", FALSE, None), pc
            return ("st", var, {str(i): a for i, a in enumerate(args)}), pc
        if not c and "f" in n:
            fv, pc = self.ev(n["f"], env, pc)
            return self.apply(fv, args, pc), pc
        if c.get("r") == "local":
            fv = env.get(c.get("id"))
            if fv is not None:
                return self.apply(fv, args, pc), pc
        return self.call_def(c, args, pc, n), pc

    def ev_mcall(self, n, env, pc):
        recv, pc = self.ev(n["recv"], env, pc)
        args = []
        for a in n["args"]:
            v, pc = self.ev(a, env, pc)
            args.append(v)
        name = n["name"]
        self.note_watch(n, pc, [recv] + args)
        c = n.get("callee") or {}
        key = c.get("inst_key") or c.get("key")
        if key in self.fns:
            return self.call_def(c, [recv] + args, pc, n), pc
        v = self.builtin(name, recv, args, pc, n)
        return v, pc

    def quant(self, it, fv, pc):
        """formula: some element of the iterator satisfies fv"""
        self.qdepth += 1
        var = ("$c%d" if it[1] == "chars" else "$e%d") % self.qdepth
        try:
            r = self.apply(fv, [("s", var)], pc)
        finally:
            self.qdepth -= 1
        return atom("any", it[1], it[2], self.positive(r), var), var

    def builtin(self, name, recv, args, pc, n):
        k = recv[0]
        a0 = args[0] if args else None
        if k in ("s", "c") and name in IDENT_METHODS:
            return recv
        if k == "s":
            S = recv[1]
            if name == "is_empty":
                return ("b", atom("empty", S), None)
            if name == "len":
                return ("n", "len", S)
            if name in ("starts_with", "ends_with") and a0 and a0[0] == "c":
                v = a0[1]
                v = chr(v) if isinstance(v, int) else v
                return ("b", atom("starts" if name == "starts_with" else "ends", S, v), None)
            if name == "contains" and a0:
                if a0[0] == "c":
                    v = chr(a0[1]) if isinstance(a0[1], int) else a0[1]
                    if len(v) == 1:
                        return ("b", atom("has", S, v), None)
                    return ("b", atom("contains", S, v), None)
                if a0[0] == "set":
                    return ("b", f_any([atom("has", S, chr(x) if isinstance(x, int) else x) for x in sorted(a0[1], key=str)]), None)
                if a0[0] in ("cl", "fn"):
                    q, _ = self.quant(("it", "chars", S), a0, pc)
                    return ("b", q, None)
            if name in ("chars", "char_indices") and not args:
                return ("it", "chars", S)
            if name in ("split", "rsplit") and a0 and a0[0] == "c":
                return ("it", "split:%s" % (chr(a0[1]) if isinstance(a0[1], int) else a0[1]), S)
            if name in ("rsplit_once", "split_once") and a0 and a0[0] == "c":
                sep = chr(a0[1]) if isinstance(a0[1], int) else a0[1]
                base = "%s.%s(%r)" % (S, name, sep)
                f = atom("has", S, sep) if len(sep) == 1 else atom("contains", S, sep)
                return ("b", f, ("t", [("s", base + "#0"), ("s", base + "#1")]))
            if name in ("strip_prefix", "strip_suffix") and a0 and a0[0] == "c":
                v = chr(a0[1]) if isinstance(a0[1], int) else a0[1]
                return ("b", atom("starts" if name == "strip_prefix" else "ends", S, v), ("s", "%s.%s(%r)" % (S, name, v)))
            if name in ("eq", "ne") and a0:
                f = self.equals(recv, a0)
                return ("b", f if name == "eq" else f_not(f), None)
        if k == "set" and name == "contains" and a0:
            return ("b", f_any([self.equals(a0, ("c", x)) for x in sorted(recv[1], key=str)]), None)
        if k == "it":
            if name in IDENT_METHODS:
                return recv
            if name in ("all", "any") and a0 and a0[0] in ("cl", "fn"):
                if name == "any":
                    q, _ = self.quant(recv, a0, pc)
                    return ("b", q, None)
                self.qdepth += 1
                var = ("$c%d" if recv[1] == "chars" else "$e%d") % self.qdepth
                try:
                    r = self.apply(a0, [("s", var)], pc)
                finally:
                    self.qdepth -= 1
                return ("b", f_not(atom("any", recv[1], recv[2], f_not(self.positive(r)), var)), None)
            if name == "try_for_each" and a0 and a0[0] in ("cl", "fn"):
                # Ok unless some element makes the callback fail
                self.qdepth += 1
                var = ("$c%d" if recv[1] == "chars" else "$e%d") % self.qdepth
                try:
                    r = self.apply(a0, [("s", var)], pc)
                finally:
                    self.qdepth -= 1
                return ("b", f_not(atom("any", recv[1], recv[2], f_not(self.positive(r)), var)), ("t", []))
            if name in ("find", "position") and a0 and a0[0] in ("cl", "fn"):
                q, var = self.quant(recv, a0, pc)
                return ("b", q, self.opaque("found"))
            if name in ("peek", "next", "next_if_eq", "next_if", "last", "nth"):
                cargs = tuple(a[1] if a[0] == "c" else self.show_val(a) for a in args)
                return ("b", atom("iter", name, recv[1], recv[2], cargs), self.opaque("item"))
        if k == "b":
            f = recv[1]
            if name in ("is_ok", "is_some"):
                return ("b", f, None)
            if name in ("is_err", "is_none"):
                return ("b", f_not(f), None)
            if name in ERR_SIDE or name in IDENT_METHODS:
                return recv
            if name in ("unwrap", "expect", "unwrap_unchecked"):
                return recv[2] if recv[2] is not None else self.opaque("unwrapped")
            if name == "err":
                return ("b", f_not(f), None)
            payload = recv[2] if recv[2] is not None else self.opaque("payload")
            if name in ("map", "and_then", "then", "is_some_and", "is_ok_and", "filter") and a0 and a0[0] in ("cl", "fn"):
                r = self.apply(a0, [] if name == "then" else [payload], f_and(pc, f))
                if name in ("map", "then"):
                    return ("b", f, r)
                if name == "filter":
                    return ("b", f_and(f, self.positive(r)), payload)
                if name == "and_then":
                    return ("b", f_and(f, self.positive(r)), r[2] if r[0] == "b" else None)
                return ("b", f_and(f, self.positive(r)), None)
            if name == "then_some" and a0:
                return ("b", f, a0)
            if name == "and" and a0 and a0[0] == "b":
                return ("b", f_and(f, a0[1]), a0[2])
            if name == "or" and a0 and a0[0] == "b":
                return ("b", f_or(f, a0[1]), None)
            if name in ("map_or", "is_none_or") and args and args[-1][0] in ("cl", "fn"):
                r = self.apply(args[-1], [payload], f_and(pc, f))
                d = TRUE if name == "is_none_or" else self.positive(args[0])
                return ("b", f_ite(f, self.positive(r), d), None)
            if name == "unwrap_or" and a0 and a0[0] == "b" and recv[2] is not None and recv[2][0] == "b":
                return ("b", f_ite(f, recv[2][1], a0[1]), None)
        if name in IDENT_METHODS and k in ("o",):
            return recv
        ty = n.get("ty") or ""
        text = "%s.%s(%s)" % (self.show_val(recv), name, ", ".join(self.show_val(a) for a in args))
        if ty == "bool" or ty.startswith(("core::result::Result<", "core::option::Option<")):
            return ("b", atom("?", text), None)
        return self.opaque(text)
