"""Helpers shared by rules/c09.py and rules/c10.py.

`Ev` extends lib.tables.Evaluator (pattern-matrix evaluation of the program *text*, no execution) with the
constructs the merge / dummy-filter code uses and the stock evaluator leaves symbolic:

  * fixed-size arrays `[a, b, c]` and array patterns `[a0, a1]` (treated like tuples), `x[<int literal>]`
  * calls of local closures / function values (`f(a)` inside `Combination::map`, `combiner(x)`), so that a
    higher-order helper of the repository can be inlined; an unknown function value becomes the term
    `@name(args)` (a "v" value), never a guess
  * `e?` on such a term stays a term `?(..)`
  * assignments are recorded with their evaluated right-hand side: ("assignv", lhs_node, value)
  * `format!(..)` with concrete arguments is rendered through the FormatArgs template the driver extracted
"""
import copy

from . import hir as H
from . import tables as T


def normalize(node):
    """Deep copy of a HIR-lite tree in which array patterns (`pslice` without a rest pattern) are rewritten to
    tuple patterns; together with `Ev` evaluating array expressions to tuple values this lets
    lib.tables.match_pat decide them."""
    n = copy.deepcopy(node)

    def rec(x):
        if isinstance(x, dict):
            if x.get("k") == "pslice" and x.get("mid") is None:
                pats = list(x.get("before") or []) + list(x.get("after") or [])
                for key in list(x.keys()):
                    if key not in ("ty", "sp"):
                        del x[key]
                x["k"] = "ptuple"
                x["pats"] = pats
                x["ddpos"] = None
            for v in list(x.values()):
                rec(v)
        elif isinstance(x, list):
            for v in x:
                rec(v)
    rec(n)
    return n


def norm_body(body):
    """Normalised copy of a body record (params + body)."""
    return normalize(body) if body is not None else None


def local_callee(n):
    """(id, name) when a `call` node calls a local variable (closure / fn value held in a local)."""
    c = n.get("callee") or {}
    if n.get("k") == "call" and c.get("r") == "local":
        return c["id"], c.get("name", "?")
    if n.get("k") == "call" and not c and "f" in n:
        return H.local_of(n["f"])
    return None


def is_term(v, name=None):
    return v[0] == "v" and v[1].startswith("@") and (name is None or v[1] == "@" + name)


class Ev(T.Evaluator):
    def __init__(self, crate=None, term_keys=None, **kw):
        super().__init__(**kw)
        self.crate = crate
        self.term_keys = set(term_keys or ())     # def keys whose calls stay structured terms `@def:<key>(args)`

    def call(self, n, c, args, env):
        self.effects.append(("callv", n, args))   # every call with its evaluated arguments (receiver first)
        key = c.get("inst_key") or c.get("key")
        if key in self.term_keys:
            return T.V("@def:" + key, *args)
        return super().call(n, c, args, env)

    # -- function values ---------------------------------------------------------------------------
    def apply(self, fv, args, node=None):
        if fv[0] == "closure":
            cn, cenv = fv[1], fv[2]
            e2 = dict(cenv)
            for p, a in zip(cn["params"], args):
                T.match_pat(p, a, e2)
            try:
                return self.ev(cn["body"], e2)
            except T.Return as r:
                return r.v
        if T.is_sym(fv):
            nm = fv[1]
            for suffix, fn in self.calls.items():
                if nm == suffix or nm.endswith("::" + suffix):
                    r = fn(args)
                    if r is not None:
                        return r
            return T.V("@" + nm, *args)
        return T.sym("<call of %s>" % T.show(fv))

    def ev(self, n, env):
        k = n.get("k")
        if k == "path" and n["res"].get("r") == "def" and n["res"].get("dk") in ("Fn", "AssocFn"):
            # a function item used as a value (`x.map(helper)`): the same as the closure `|a, ..| helper(a, ..)`; when the helper is one
            # of the functions the caller allows to be inlined its body is what gets applied
            fb = self.inline.get(n["res"].get("inst_key")) or self.inline.get(n["res"].get("key"))
            if fb is not None and isinstance(fb.get("body"), dict):
                return ("closure", {"k": "closure", "params": fb["params"], "body": fb["body"], "sp": fb.get("sp")}, {})
        if k == "array":
            return ("t", [self.ev(x, env) for x in n["es"]])
        if k == "index":
            v = self.ev(n["e"], env)
            i = self.ev(n["i"], env)
            if v[0] == "t" and i[0] == "i" and 0 <= i[1] < len(v[1]):
                return v[1][i[1]]
            return T.sym("%s[%s]" % (T.show(v), T.show(i)))
        if k == "call" and local_callee(n) is not None:
            lid, name = local_callee(n)
            fv = env.get(lid, T.sym(name))
            args = [self.ev(a, env) for a in n["args"]]
            return self.apply(fv, args, n)
        if k == "call" and not n.get("callee") and "f" in n:
            fv = self.ev(n["f"], env)
            args = [self.ev(a, env) for a in n["args"]]
            return self.apply(fv, args, n)
        if k == "call" and self.crate is not None and (n.get("callee") or {}).get("path") == "alloc::fmt::format":
            r = self._format(n, env)
            if r is not None:
                return r
        if k == "try":
            v = self.ev(n["e"], env)
            if is_term(v):
                return T.V("?", v)
            if v[0] == "v" and v[1] in ("Ok", "Some", "Continue"):
                return v[2][0] if v[2] else ("t", [])
            if v[0] == "v" and v[1] in ("Err", "None", "Break"):
                raise T.Return(("err", T.show(v)))
            if v[0] == "err":
                raise T.Return(v)
            self.effect("try", H.render(n["e"]))
            if T.is_sym(v):
                return T.sym(v[1] + "?")
            return T.sym(H.render(n))
        if k == "assign":
            self.effects.append(("assignv", n["l"], self.ev(n["r"], env)))
            return ("t", [])
        return super().ev(n, env)

    def _format(self, n, env):
        """`format!(template, args..)`: literal pieces from the driver's FormatArgs record of this call site,
        arguments from the `let args = (&a, &b, ..)` tuple of the expansion."""
        fas = H.format_args_in(self.crate, n)
        if len(fas) != 1:
            return None
        tuples = [x for x in H.walk(n) if x.get("k") == "let" and x.get("init", {}).get("k") == "tuple"]
        vals = [self.ev(e, env) for e in tuples[0]["init"]["es"]] if tuples else []
        out = ""
        for p in fas[0]["pieces"]:
            if isinstance(p, str):
                out += p
            else:
                i = p.get("arg")
                if i is None or i >= len(vals) or vals[i][0] not in ("i", "s") or p.get("trait") != "Display":
                    return T.V("@format", ("s", out), *vals)
                out += str(vals[i][1])
        return ("s", out)


def preorder_pos(root):
    """id(node) -> position in a pre-order (source / evaluation order) walk."""
    return {id(x): i for i, x in enumerate(H.walk(root))}


def strip_wrappers(e, body_root=None, allowed=("context", "with_context")):
    """Peel `?`, `.context(..)`, `.with_context(..)` and follow a directly let-bound local.
    -> (inner node, saw_try, other_wrappers[list of names])"""
    saw_try = False
    other = []
    seen = set()
    while True:
        e = H.peel(e, refs=False)
        k = e.get("k")
        if k == "try":
            saw_try = True
            e = e["e"]
        elif k == "mcall" and e["name"] in allowed:
            e = e["recv"]
        elif k == "path" and e["res"].get("r") == "local" and body_root is not None and e["res"]["id"] not in seen:
            seen.add(e["res"]["id"])
            init = H.let_init_of(body_root, e["res"]["id"])
            if init is None:
                return e, saw_try, other
            e = init
        else:
            return e, saw_try, other


def unmodelled_mutations(node, allow_ref_mut=False, into_closures=True):
    """Constructs the table evaluator does not model (it has no store): assignments, `&mut x`, method calls whose
    receiver is auto-borrowed mutably.  A function evaluated cell by cell must not contain any (fail closed)."""
    out = []
    for n in H.walk(node, into_closures):
        k = n.get("k")
        if k in ("assign", "assignop"):
            out.append(n)
        elif k == "ref" and n.get("mut") and not allow_ref_mut:
            out.append(n)
        elif k == "mcall" and (n["recv"].get("tya") or "").startswith("&mut") and _is_place(n["recv"]):
            out.append(n)
        elif k == "let" and _has_mut_binding(n.get("pat")):
            out.append(n)
    return out


def _is_place(e):
    """`x`, `x.f`, `x[i]`, `*x` rooted in a local (a temporary such as `v.iter()` is not a place)."""
    while True:
        e = H.peel(e)
        if e.get("k") in ("field", "index"):
            e = e["e"]
        elif e.get("k") == "path":
            return e["res"].get("r") == "local"
        else:
            return False


def _has_mut_binding(p):
    if isinstance(p, dict):
        if p.get("k") == "bind" and "mut" in str(p.get("mode", "")).lower():
            return True
        return any(_has_mut_binding(v) for v in p.values())
    if isinstance(p, list):
        return any(_has_mut_binding(v) for v in p)
    return False


# ------------------------------------------------------------------------------------------------- element streams
class StreamError(Exception):
    pass


PASS_THROUGH = {"iter", "into_iter", "collect", "by_ref", "cloned", "copied", "peekable", "fuse"}
EMPTY_CTORS = {"new", "with_capacity", "default", "with_capacity_and_hasher", "with_hasher"}


def stream_elem(e, root, ev, env, roots, sources, depth=0):
    """Abstract element of the sequence an expression iterates over, for the shapes `x.iter()`, `&x`, `x.keys()`,
    `s.chain(t)` (both must yield the same abstract element), `s.map(closure)` (the closure is applied by `ev`), `.collect()`
    / `.into_iter()` and let-bound intermediates.  `roots`: local id -> name of a source collection (a parameter).
    `sources` collects (root name, "entries" | "keys").  Anything else (filter, skip, take, rev, values, zip ..) raises
    StreamError: the caller reports it (fail closed) instead of guessing."""
    if depth > 24:
        raise StreamError("too deep")
    e = H.peel(e)
    k = e.get("k")
    if k == "path" and e["res"].get("r") == "local":
        lid = e["res"]["id"]
        if lid in roots:
            sources.add((roots[lid], "entries"))
            return ("t", [T.sym("k"), T.sym("v")])
        init = H.let_init_of(root, lid)
        if init is None:
            raise StreamError("local `%s` is not a let-bound intermediate" % e["res"].get("name"))
        return stream_elem(init, root, ev, env, roots, sources, depth + 1)
    if k == "mcall":
        nm = e["name"]
        if nm in PASS_THROUGH:
            return stream_elem(e["recv"], root, ev, env, roots, sources, depth + 1)
        if nm == "keys":
            l = H.local_of(e["recv"])
            if l and l[0] in roots:
                sources.add((roots[l[0]], "keys"))
                return T.sym("key")
            raise StreamError("keys() of something that is not an input map: %s" % H.render(e)[:80])
        if nm == "chain" and len(e["args"]) == 1:
            a = stream_elem(e["recv"], root, ev, env, roots, sources, depth + 1)
            b = stream_elem(e["args"][0], root, ev, env, roots, sources, depth + 1)
            if a != b:
                raise StreamError("chained sequences of different element shape")
            return a
        if nm == "map" and len(e["args"]) == 1 and H.peel(e["args"][0]).get("k") == "closure":
            x = stream_elem(e["recv"], root, ev, env, roots, sources, depth + 1)
            return ev.apply(("closure", H.peel(e["args"][0]), dict(env)), [x])
    raise StreamError("sequence adaptor not understood: %s" % H.render(e)[:100])


def per_element(fb, site, ev, env, roots):
    """What a function does with each element of its input sequence(s) at the iteration construct that encloses `site`
    (a node inside the per-element code, e.g. the call of the combiner).  Two equivalent shapes are understood:

      * `<seq>.map(|elem| Ok((K, V))).collect()` as the function's result,
      * `let mut acc = <empty map>; for elem in <seq> { ..; acc.insert(K, V); } Ok(acc)` with the loop unconditional.

    -> dict(key=K, value=V, sources={(root, "entries"|"keys")}, allowed=[nodes that mutate legitimately]) or raises StreamError."""
    chain = H.parents_of(fb["body"], site)
    if chain is None:
        raise StreamError("site not inside the function")
    sources = set()
    result = H.peel(_fn_result(fb["body"]) or {}, refs=False)
    for i in range(len(chain) - 1, -1, -1):
        c = chain[i]
        if c.get("k") == "for":
            if H.path_conditions(fb["body"], c):
                raise StreamError("the loop over the input is conditional")
            elem = stream_elem(c["iter"], fb["body"], ev, env, roots, sources)
            e2 = dict(env)
            if T.match_pat(c["pat"], elem, e2) is not True:
                raise StreamError("loop pattern does not fit the element %s" % T.show(elem))
            ev.effects = []
            try:
                ev.ev(c["body"], e2)
            except (T.Return, T.Break):
                raise StreamError("early exit from the loop body")
            ins = [x for x in ev.effects if x[0] == "callv" and x[1].get("k") == "mcall" and x[1]["name"] == "insert" and H.local_of(x[1]["recv"])]
            if len(ins) != 1 or len(ins[0][2]) != 3:
                raise StreamError("expected exactly one `acc.insert(key, value)` per element, found %d" % len(ins))
            acc = H.local_of(ins[0][1]["recv"])[0]
            init = H.let_init_of(fb["body"], acc)
            i0 = H.peel(init) if init is not None else {}
            if not (i0.get("k") == "call" and H.callee_name(i0) in EMPTY_CTORS and "IndexMap" in (i0.get("ty") or "")):
                raise StreamError("accumulator is not initialised with an empty IndexMap")
            okres = False
            if result.get("k") == "call" and (H.ctor_of(result) or (None, None))[1] == "Ok" and len(result["args"]) == 1:
                l = H.local_of(result["args"][0])
                okres = bool(l) and l[0] == acc
            if not okres:
                raise StreamError("the function does not return Ok(<accumulator>)")
            lets = [n for n in H.walk(fb["body"]) if n.get("k") == "let" and n.get("pat", {}).get("k") == "bind" and n["pat"]["id"] == acc]
            return {"key": ins[0][2][1], "value": ins[0][2][2], "sources": sources, "allowed": lets + [ins[0][1]], "shape": "for"}
        if c.get("k") == "closure":
            m = chain[i - 1] if i > 0 else {}
            if m.get("k") == "ref" and i > 1:
                m = chain[i - 2]
            if not (m.get("k") == "mcall" and m["name"] == "map" and any(H.peel(a) is c for a in m["args"])):
                raise StreamError("closure is not the argument of an iterator `.map(..)`")
            if not (result.get("k") == "mcall" and result["name"] == "collect" and H.peel(result["recv"]) is m):
                raise StreamError("the mapped sequence is not collected as the function's result")
            elem = stream_elem(m["recv"], fb["body"], ev, env, roots, sources)
            out = ev.apply(("closure", c, dict(env)), [elem])
            if not (out[0] == "v" and out[1] == "Ok" and out[2] and out[2][0][0] == "t" and len(out[2][0][1]) == 2):
                raise StreamError("per-element result is not Ok((key, value)): %s" % T.show(out))
            return {"key": out[2][0][1][0], "value": out[2][0][1][1], "sources": sources, "allowed": [], "shape": "map"}
    raise StreamError("no enclosing loop / iterator map")


def _fn_result(body):
    b = H.peel(body, refs=False)
    if b.get("k") == "block":
        return b.get("tail")
    return b
