"""Helpers shared by rules/c09.py and rules/c10.py.

`Ev` extends lib.tables.Evaluator (pattern-matrix evaluation of the program *text*, no execution) with the
constructs the merge / dummy-filter code uses and the stock evaluator leaves symbolic:

  * fixed-size arrays `[a, b, c]` and array patterns `[a0, a1]` (treated like tuples), `x[<int literal>]`
  * calls of local closures / function values (`f(a)` inside `Combination::map`, `combiner(x)`), so that a
    higher-order helper of the repository can be inlined; an unknown function value becomes the term
    `@name(args)` (a "v" value), never a guess
  * `e?` on such a term stays a term `?(..)`
  * assignments are recorded with their evaluated right-hand side: ("assignv", lhs_node, value)
  * `format!(..)` with concrete arguments is rendered through the FormatArgs template the driver extracted
"""
import copy

from . import hir as H
from . import tables as T


def normalize(node):
    """Deep copy of a HIR-lite tree in which array patterns (`pslice` without a rest pattern) are rewritten to
    tuple patterns; together with `Ev` evaluating array expressions to tuple values this lets
    lib.tables.match_pat decide them."""
    n = copy.deepcopy(node)

    def rec(x):
        if isinstance(x, dict):
            if x.get("k") == "pslice" and x.get("mid") is None:
                pats = list(x.get("before") or []) + list(x.get("after") or [])
                for key in list(x.keys()):
                    if key not in ("ty", "sp"):
                        del x[key]
                x["k"] = "ptuple"
                x["pats"] = pats
                x["ddpos"] = None
            for v in list(x.values()):
                rec(v)
        elif isinstance(x, list):
            for v in x:
                rec(v)
    rec(n)
    return n


def norm_body(body):
    """Normalised copy of a body record (params + body)."""
    return normalize(body) if body is not None else None


def local_callee(n):
    """(id, name) when a `call` node calls a local variable (closure / fn value held in a local)."""
    c = n.get("callee") or {}
    if n.get("k") == "call" and c.get("r") == "local":
        return c["id"], c.get("name", "?")
    if n.get("k") == "call" and not c and "f" in n:
        return H.local_of(n["f"])
    return None


def is_term(v, name=None):
    return v[0] == "v" and v[1].startswith("@") and (name is None or v[1] == "@" + name)


class Ev(T.Evaluator):
    def __init__(self, crate=None, **kw):
        super().__init__(**kw)
        self.crate = crate

    # -- function values ---------------------------------------------------------------------------
    def apply(self, fv, args, node=None):
        if fv[0] == "closure":
            cn, cenv = fv[1], fv[2]
            e2 = dict(cenv)
            for p, a in zip(cn["params"], args):
                T.match_pat(p, a, e2)
            try:
                return self.ev(cn["body"], e2)
            except T.Return as r:
                return r.v
        if T.is_sym(fv):
            nm = fv[1]
            for suffix, fn in self.calls.items():
                if nm == suffix or nm.endswith("::" + suffix):
                    r = fn(args)
                    if r is not None:
                        return r
            return T.V("@" + nm, *args)
        return T.sym("<call of %s>" % T.show(fv))

    def ev(self, n, env):
        k = n.get("k")
        if k == "array":
            return ("t", [self.ev(x, env) for x in n["es"]])
        if k == "index":
            v = self.ev(n["e"], env)
            i = self.ev(n["i"], env)
            if v[0] == "t" and i[0] == "i" and 0 <= i[1] < len(v[1]):
                return v[1][i[1]]
            return T.sym("%s[%s]" % (T.show(v), T.show(i)))
        if k == "call" and local_callee(n) is not None:
            lid, name = local_callee(n)
            fv = env.get(lid, T.sym(name))
            args = [self.ev(a, env) for a in n["args"]]
            return self.apply(fv, args, n)
        if k == "call" and not n.get("callee") and "f" in n:
            fv = self.ev(n["f"], env)
            args = [self.ev(a, env) for a in n["args"]]
            return self.apply(fv, args, n)
        if k == "call" and self.crate is not None and (n.get("callee") or {}).get("path") == "alloc::fmt::format":
            r = self._format(n, env)
            if r is not None:
                return r
        if k == "try":
            v = self.ev(n["e"], env)
            if is_term(v):
                return T.V("?", v)
            if v[0] == "v" and v[1] in ("Ok", "Some", "Continue"):
                return v[2][0] if v[2] else ("t", [])
            if v[0] == "v" and v[1] in ("Err", "None", "Break"):
                raise T.Return(("err", T.show(v)))
            if v[0] == "err":
                raise T.Return(v)
            self.effect("try", H.render(n["e"]))
            if T.is_sym(v):
                return T.sym(v[1] + "?")
            return T.sym(H.render(n))
        if k == "assign":
            self.effects.append(("assignv", n["l"], self.ev(n["r"], env)))
            return ("t", [])
        return super().ev(n, env)

    def _format(self, n, env):
        """`format!(template, args..)`: literal pieces from the driver's FormatArgs record of this call site,
        arguments from the `let args = (&a, &b, ..)` tuple of the expansion."""
        fas = H.format_args_in(self.crate, n)
        if len(fas) != 1:
            return None
        tuples = [x for x in H.walk(n) if x.get("k") == "let" and x.get("init", {}).get("k") == "tuple"]
        vals = [self.ev(e, env) for e in tuples[0]["init"]["es"]] if tuples else []
        out = ""
        for p in fas[0]["pieces"]:
            if isinstance(p, str):
                out += p
            else:
                i = p.get("arg")
                if i is None or i >= len(vals) or vals[i][0] not in ("i", "s") or p.get("trait") != "Display":
                    return T.V("@format", ("s", out), *vals)
                out += str(vals[i][1])
        return ("s", out)


def preorder_pos(root):
    """id(node) -> position in a pre-order (source / evaluation order) walk."""
    return {id(x): i for i, x in enumerate(H.walk(root))}


def strip_wrappers(e, body_root=None, allowed=("context", "with_context")):
    """Peel `?`, `.context(..)`, `.with_context(..)` and follow a directly let-bound local.
    -> (inner node, saw_try, other_wrappers[list of names])"""
    saw_try = False
    other = []
    seen = set()
    while True:
        e = H.peel(e, refs=False)
        k = e.get("k")
        if k == "try":
            saw_try = True
            e = e["e"]
        elif k == "mcall" and e["name"] in allowed:
            e = e["recv"]
        elif k == "path" and e["res"].get("r") == "local" and body_root is not None and e["res"]["id"] not in seen:
            seen.add(e["res"]["id"])
            init = H.let_init_of(body_root, e["res"]["id"])
            if init is None:
                return e, saw_try, other
            e = init
        else:
            return e, saw_try, other


def unmodelled_mutations(node, allow_ref_mut=False, into_closures=True):
    """Constructs the table evaluator does not model (it has no store): assignments, `&mut x`, method calls whose
    receiver is auto-borrowed mutably.  A function evaluated cell by cell must not contain any (fail closed)."""
    out = []
    for n in H.walk(node, into_closures):
        k = n.get("k")
        if k in ("assign", "assignop"):
            out.append(n)
        elif k == "ref" and n.get("mut") and not allow_ref_mut:
            out.append(n)
        elif k == "mcall" and (n["recv"].get("tya") or "").startswith("&mut") and _is_place(n["recv"]):
            out.append(n)
        elif k == "let" and _has_mut_binding(n.get("pat")):
            out.append(n)
    return out


def _is_place(e):
    """`x`, `x.f`, `x[i]`, `*x` rooted in a local (a temporary such as `v.iter()` is not a place)."""
    while True:
        e = H.peel(e)
        if e.get("k") in ("field", "index"):
            e = e["e"]
        elif e.get("k") == "path":
            return e["res"].get("r") == "local"
        else:
            return False


def _has_mut_binding(p):
    if isinstance(p, dict):
        if p.get("k") == "bind" and "mut" in str(p.get("mode", "")).lower():
            return True
        return any(_has_mut_binding(v) for v in p.values())
    if isinstance(p, list):
        return any(_has_mut_binding(v) for v in p)
    return False
