"""C20: layout terms derived from the parsed `notation!` DSL, their byte-length polynomials, and the comparison with the
JVMS structure tables of spec/jvms_classfile_structs.json (bisimulation over struct/union references)."""
import json
import re

from lib.c20_util import PRIMS, Poly, Unrecognised, parse_expr, parse_lit, parse_pattern, tok_text


# ------------------------------------------------------------------------------------------------ DSL -> layout
def item_node(it):
    """DSL item -> ("prim", w) | ("virt",) | ("ref", T) | ("vec", ("w", n) | ("ext", tokens), elem)"""
    if it["role"] == "const":
        if it["ty"] not in PRIMS:
            raise Unrecognised("const %s of non-primitive type %s" % (it["name"], it["ty"]))
        return ("prim", PRIMS[it["ty"]])
    if it.get("nowrite") is not None:
        if it["ty"] not in PRIMS:
            raise Unrecognised("nowrite field %s of non-primitive type" % it["name"])
        return ("virt",)
    if it["ty"] in PRIMS:
        if it["elem"] or it["cw"] or it["ext"]:
            raise Unrecognised("primitive field %s with vector decorations" % it["name"])
        return ("prim", PRIMS[it["ty"]])
    if it["ty"] == "Vec":
        if not it["elem"]:
            raise Unrecognised("Vec field %s without element type" % it["name"])
        elem = ("prim", PRIMS[it["elem"]]) if it["elem"] in PRIMS else ("ref", it["elem"])
        if (it["cw"] is None) == (it["ext"] is None):
            raise Unrecognised("Vec field %s needs exactly one of [count width] / {external length}" % it["name"])
        if it["cw"] is not None:
            if it["cw"] not in PRIMS:
                raise Unrecognised("count width %s" % it["cw"])
            return ("vec", ("w", PRIMS[it["cw"]]), elem)
        return ("vec", ("ext", it["ext"]), elem)
    if it["elem"] or it["cw"] or it["ext"]:
        raise Unrecognised("field %s: generic type %s" % (it["name"], it["ty"]))
    return ("ref", it["ty"])


class Models:
    def __init__(self, models):
        self.by_name = {m["name"]: m for m in models}
        self._fixed = {}

    def fixed_size(self, tname, stack=()):
        """Byte size of a DSL type when it is the same for every value, else None."""
        if tname in self._fixed:
            return self._fixed[tname]
        m = self.by_name.get(tname)
        if m is None or m["kind"] != "struct" or tname in stack:
            return None
        total = 0
        for it in m["items"]:
            n = item_node(it)
            if n[0] == "prim":
                total += n[1]
            elif n[0] == "virt":
                pass
            elif n[0] == "ref":
                s = self.fixed_size(n[1], stack + (tname,))
                if s is None:
                    total = None
                    break
                total += s
            else:
                total = None
                break
        self._fixed[tname] = total
        return total

    def item_size(self, it):
        """Byte length of one DSL item as a polynomial in len(field) / bytes(field) variables."""
        n = item_node(it)
        if n[0] == "prim":
            return Poly.const(n[1])
        if n[0] == "virt":
            return Poly.const(0)
        if n[0] == "ref":
            s = self.fixed_size(n[1])
            return Poly.const(s) if s is not None else Poly.var("bytes(%s)" % it["name"])
        cnt, elem = n[1], n[2]
        head = Poly.const(cnt[1]) if cnt[0] == "w" else Poly.const(0)
        es = elem[1] if elem[0] == "prim" else self.fixed_size(elem[1])
        if es is None:
            return head + Poly.var("bytes(%s)" % it["name"])
        return head + Poly.const(es) * Poly.var("len(%s)" % it["name"])

    def seq_size(self, items, tag_w=0):
        p = Poly.const(tag_w)
        for it in items:
            p = p + self.item_size(it)
        return p


# ------------------------------------------------------------------------------------------------ spec side
_TOK = re.compile(r"\s*([A-Za-z_][A-Za-z_0-9]*|[0-9]+|[-+*()])")


def string_tokens(s):
    out, i = [], 0
    while i < len(s):
        m = _TOK.match(s, i)
        if not m:
            if s[i:].strip() == "":
                break
            raise Unrecognised("spec expression %r" % s)
        t = m.group(1)
        i = m.end()
        if t[0].isdigit():
            out.append({"t": "lit", "s": t})
        elif t[0].isalpha() or t[0] == "_":
            out.append({"t": "ident", "s": t})
        else:
            out.append({"t": "punct", "s": t})
    # parentheses are not needed by the spec expressions; keep the tokenizer flat
    if any(t["s"] in "()" for t in out if t["t"] == "punct"):
        raise Unrecognised("parentheses in spec expression %r" % s)
    return out


def spec_poly(s):
    return parse_expr(string_tokens(s))


def spec_atoms(items):
    """spec item list -> atoms: {"k": "prim", "w", "name"} | {"k": "table", "elem", "n"} | {"k": "struct", "name"}"""
    out = []
    for it in items:
        if isinstance(it, str):
            ty, _, nm = it.partition(":")
            out.append({"k": "prim", "w": {"u1": 1, "u2": 2, "u4": 4}[ty], "name": nm or None})
        elif "table" in it:
            out.append({"k": "table", "elem": it["table"], "n": it["n"]})
        elif "struct" in it:
            out.append({"k": "struct", "name": it["struct"]})
        else:
            raise Unrecognised("spec item %r" % (it,))
    return out


def show_spec_atom(a):
    if a is None:
        return "<nothing>"
    if a["k"] == "prim":
        return "u%d %s" % (a["w"], a["name"] or "")
    if a["k"] == "struct":
        return a["name"]
    e = a["elem"]
    return "%s[%s]" % (e if isinstance(e, str) else "{%d items}" % len(e), a["n"])


class Comparer:
    """Structural comparison of DSL types with JVMS structures. Every DSL item gives one rule instance."""

    def __init__(self, models, spec, R, rid, aliases):
        self.M = models
        self.S = spec
        self.R = R
        self.rid = rid
        self.aliases = aliases
        self.pairs = {}          # DSL type -> spec struct/union name
        self.queue = []
        self.inline_done = set()
        self.reached = set()
        self.lookup_fns = set()

    # -- helpers
    def sp(self, m, line=None):
        sp = m.get("sp")
        if sp and line:
            return "%s:%d" % (sp.split(":")[0], line)
        return sp

    def pair(self, T, name):
        """Record that DSL type T stands for spec structure `name`; False if T already stands for another one."""
        if T not in self.M.by_name:
            return False
        if T in self.pairs:
            return self.pairs[T] == name
        self.pairs[T] = name
        self.queue.append((T, name))
        return True

    def elem_ok(self, dsl_elem, spec_elem):
        if isinstance(spec_elem, str) and spec_elem in ("u1", "u2", "u4"):
            return dsl_elem == ("prim", int(spec_elem[1]))
        if dsl_elem[0] != "ref":
            return False
        if isinstance(spec_elem, str):
            return self.pair(dsl_elem[1], spec_elem)
        # inline anonymous structure
        T = dsl_elem[1]
        m = self.M.by_name.get(T)
        if m is None or m["kind"] != "struct":
            return False
        key = (T, json.dumps(spec_elem, sort_keys=True))
        if key not in self.inline_done:
            self.inline_done.add(key)
            self.reached.add(T)
            self.compare_items(T, m, m["items"], spec_elem, None, 0, None)
        return True

    def dsl_atoms(self, items, tag_atoms, tag_names):
        """-> (atoms, owner index per atom, var -> position). atoms: ("prim", w) | ("table", elem, npoly) | ("struct", T)"""
        atoms, owner = [], []
        pos = {}
        for nm in tag_names:
            pos[nm] = "tag"
        for a in tag_atoms:
            atoms.append(a)
            owner.append(-1)
        for idx, it in enumerate(items):
            n = item_node(it)
            if n[0] == "prim":
                pos[it["name"]] = "@%d" % len(atoms)
                atoms.append(("prim", n[1]))
                owner.append(idx)
            elif n[0] == "ref":
                atoms.append(("struct", n[1]))
                owner.append(idx)
            elif n[0] == "vec":
                if n[1][0] == "w":
                    atoms.append(("prim", n[1][1]))
                    owner.append(idx)
                    atoms.append(("table", n[2], Poly.var("@%d" % (len(atoms) - 1))))
                    owner.append(idx)
                else:
                    p = parse_expr(n[1][1])
                    atoms.append(("table", n[2], ("late", p)))
                    owner.append(idx)
        # resolve external-length polynomials
        for i, a in enumerate(atoms):
            if a[0] == "table" and isinstance(a[2], tuple):
                p = a[2][1]
                bad = [v for v in p.vars() if v not in pos]
                if bad:
                    raise Unrecognised("external length refers to %s" % bad)
                atoms[i] = ("table", a[1], p.rename(lambda v: pos[v]))
        return atoms, owner, pos

    def show_dsl_atom(self, a):
        if a[0] == "prim":
            return "u%d" % a[1]
        if a[0] == "struct":
            return a[1]
        e = a[1]
        return "%s[%s]" % ("u%d" % e[1] if e[0] == "prim" else e[1], a[2].show())

    def compare_items(self, T, m, items, spec_items, variant, tag_w, tag_names, tag_is_first_atom=False):
        """Compare a DSL item list with a spec item list. tag_is_first_atom: the union's tag is itself the first spec
        item (attribute_name_index)."""
        R, rid = self.R, self.rid
        where = T if variant is None else "%s::%s" % (T, variant)
        try:
            tag_atoms = [("prim", tag_w)] if tag_is_first_atom else []
            atoms, owner, _pos = self.dsl_atoms(items, tag_atoms, tag_names or [])
            satoms = spec_atoms(spec_items)
        except Unrecognised as e:
            R.unrecognised(rid, "layout:" + where, str(e), self.sp(m))
            return
        spos = {"tag": "tag"}
        for i, a in enumerate(satoms):
            if a["k"] == "prim" and a["name"]:
                spos[a["name"]] = "@%d" % i

        def atom_ok(i):
            if i >= len(satoms):
                return False
            a, s = atoms[i], satoms[i]
            if a[0] == "prim":
                return s["k"] == "prim" and s["w"] == a[1]
            if a[0] == "struct":
                return s["k"] == "struct" and self.pair(a[1], s["name"])
            if s["k"] != "table":
                return False
            e_ok = self.elem_ok(a[1], s["elem"])      # always explore the element type, also when the length is wrong
            try:
                sp_n = spec_poly(s["n"])
                if any(v not in spos for v in sp_n.vars()):
                    return False
                sp_n = sp_n.rename(lambda v: spos[v])
            except Unrecognised:
                return False
            return sp_n == a[2] and e_ok

        if tag_is_first_atom:
            R.inst(rid, "layout:%s:tag-field" % where, atom_ok(0), sp=self.sp(m),
                   expect=show_spec_atom(satoms[0] if satoms else None), got=self.show_dsl_atom(atoms[0]))
        for idx, it in enumerate(items):
            mine = [i for i, o in enumerate(owner) if o == idx]
            if not mine:
                continue        # nowrite fields: no bytes (checked as `implied`)
            ok = all([atom_ok(i) for i in mine])
            R.inst(rid, "layout:%s.%s" % (where, it["name"]), ok, sp=self.sp(m, it.get("line")),
                   expect=" ; ".join(show_spec_atom(satoms[i] if i < len(satoms) else None) for i in mine),
                   got=" ; ".join(self.show_dsl_atom(atoms[i]) for i in mine),
                   detail="JVMS layout of %s at this position" % where)
            if ok and it["role"] == "field" and len(mine) == 1 and atoms[mine[0]][0] == "prim" and satoms[mine[0]].get("name"):
                # the crate documents "use JVMS chapter 4 to build a class file": an integer field carries the JVMS item's name, so
                # that two same-width items cannot be exchanged unnoticed
                R.inst(rid, "field-name:%s.%s" % (where, it["name"]), it["name"] == satoms[mine[0]]["name"], sp=self.sp(m, it.get("line")),
                       expect=satoms[mine[0]]["name"], got=it["name"], detail="JVMS item at this position of %s" % where)
        R.inst(rid, "layout:%s:item-count" % where, len(atoms) == len(satoms), sp=self.sp(m),
               expect="%d wire items: %s" % (len(satoms), ", ".join(show_spec_atom(a) for a in satoms)),
               got="%d wire items: %s" % (len(atoms), ", ".join(self.show_dsl_atom(a) for a in atoms)))

    # -- driving
    def run(self, root_T, root_S):
        self.pair(root_T, root_S)
        while self.queue:
            T, name = self.queue.pop(0)
            self.reached.add(T)
            m = self.M.by_name[T]
            if name in self.S["structs"]:
                if not self.R.inst(self.rid, "kind:%s" % T, m["kind"] == "struct", sp=self.sp(m), expect="struct " + name, got=m["kind"]):
                    continue
                self.compare_items(T, m, m["items"], self.S["structs"][name], None, 0, None)
            elif name in self.S["unions"]:
                if not self.R.inst(self.rid, "kind:%s" % T, m["kind"] == "enum", sp=self.sp(m), expect="union " + name, got=m["kind"]):
                    continue
                self.compare_union(T, m, name, self.S["unions"][name])
            else:
                self.R.inst(self.rid, "kind:%s" % T, False, sp=self.sp(m), detail="spec structure %s unknown" % name)

    def name_ok(self, dsl_name, spec_name):
        return dsl_name == spec_name or self.aliases.get(dsl_name) == spec_name

    def compare_union(self, T, m, uname, U):
        R, rid = self.R, self.rid
        tag_w = PRIMS.get(m["tag_ty"])
        if "header" in U:
            self.compare_attributes(T, m, U, tag_w)
            return
        R.inst(rid, "tag-width:%s" % T, tag_w == int(U["tag"][1]), sp=self.sp(m), expect=U["tag"], got=m["tag_ty"])
        if "cases" in U:
            cases = {}
            for k, v in U["cases"].items():
                cases[int(k) if k.isdigit() else ord(k)] = v
            seen = {}
            for v in m["variants"]:
                where = "%s::%s" % (T, v["name"])
                try:
                    pat = parse_pattern(v["tag_pat"])
                    wr = parse_expr(v["tag_expr"])
                except Unrecognised as e:
                    R.unrecognised(rid, "tag:" + where, str(e), self.sp(m, v["line"]))
                    continue
                ok = pat["kind"] == "lit" and v["guard"] is None and wr.const_value() == pat["v"]
                case = cases.get(pat.get("v")) if pat["kind"] == "lit" else None
                ok = ok and case is not None and self.name_ok(v["name"], case["name"]) and pat["v"] not in seen
                R.inst(rid, "tag:" + where, ok, sp=self.sp(m, v["line"]),
                       expect="tag %s written and matched for %s" % ([k for k, c in cases.items() if self.name_ok(v["name"], c["name"])], v["name"]),
                       got="writes %s, matches %s" % (tok_text(v["tag_expr"]), tok_text(v["tag_pat"])),
                       detail="JVMS tag table of %s" % uname)
                if pat["kind"] == "lit":
                    seen[pat["v"]] = v["name"]
                if case is None or not self.name_ok(v["name"], case["name"]):
                    # tag mismatch already reported: compare the payload with the JVMS item of the same name
                    byname = [c for c in cases.values() if self.name_ok(v["name"], c["name"])]
                    case = byname[0] if byname else None
                if case is not None:
                    self.compare_items(T, m, v["items"], case["items"], v["name"], tag_w, [m["tag_name"]])
            for k, cse in sorted(cases.items()):
                R.inst(rid, "case:%s:%s" % (T, cse["name"]), k in seen, sp=self.sp(m),
                       detail="JVMS %s tag %d (%s) has no variant: a class file containing it cannot be read" % (uname, k, cse["name"]))
            self.fallback(T, m)
        elif "ranges" in U:
            self.compare_frames(T, m, U, tag_w)

    def fallback(self, T, m):
        fb = m["fallback"]
        ok = fb is not None and len(fb["pat"]) == 1 and fb["pat"][0]["t"] == "ident" and fb["expr"] and fb["expr"][0].get("s") == "Err"
        self.R.inst(self.rid, "fallback:%s" % T, ok, sp=self.sp(m),
                    detail="a tag outside the JVMS table must be rejected with Err (not mapped to some variant)",
                    got=tok_text(fb["expr"])[:80] if fb else None)

    def compare_frames(self, T, m, U, tag_w):
        R, rid = self.R, self.rid
        ranges = {(r["lo"], r["hi"]): r for r in U["ranges"]}
        covered = []
        for v in m["variants"]:
            where = "%s::%s" % (T, v["name"])
            sp = self.sp(m, v["line"])
            try:
                pat = parse_pattern(v["tag_pat"])
                wr = parse_expr(v["tag_expr"])
            except Unrecognised as e:
                R.unrecognised(rid, "tag:" + where, str(e), sp)
                continue
            if pat["kind"] == "lit":
                lo = hi = pat["v"]
                binders = []
            elif pat["kind"] == "range":
                lo, hi = pat["lo"], pat["hi"]
                binders = [pat["bind"]] if pat["bind"] else []
            else:
                R.inst(rid, "tag:" + where, False, sp=sp, detail="frame variants must match a literal or a range", got=tok_text(v["tag_pat"]))
                continue
            r = ranges.get((lo, hi))
            norm = lambda s: s.replace("_", "").replace("frame", "").replace("Frame", "").lower()
            ok = r is not None and v["guard"] is None and norm(r["name"]) == norm(v["name"]) and not any(
                not (hi < a or lo > b) for a, b, _ in covered)
            R.inst(rid, "tag:" + where, ok, sp=sp,
                   expect="frame_type range of %s: %s" % (v["name"], [(k, x["name"]) for k, x in ranges.items() if norm(x["name"]) == norm(v["name"])]),
                   got="%d..=%d" % (lo, hi), detail="JVMS 4.7.4 frame_type ranges")
            covered.append((lo, hi, v["name"]))
            if r is None:
                continue
            tag_names = [m["tag_name"]] + binders
            self.compare_items(T, m, v["items"], r["items"], v["name"], tag_w, tag_names)
            # implied (nowrite) fields
            implied = dict(r.get("implied") or {})
            for it in v["items"]:
                if it.get("nowrite") is None:
                    continue
                key = "implied:%s.%s" % (where, it["name"])
                want = implied.pop(it["name"], None)
                try:
                    got = parse_expr(it["nowrite"]).rename(lambda x: "tag" if x in tag_names else x)
                    R.inst(rid, key, want is not None and spec_poly(want) == got, sp=self.sp(m, it["line"]), expect=want, got=got.show(),
                           detail="value of the field that is encoded in frame_type")
                except Unrecognised as e:
                    R.unrecognised(rid, key, str(e), sp)
            for nm, want in implied.items():
                R.inst(rid, "implied:%s.%s" % (where, nm), False, sp=sp, expect=want, got="no such nowrite field")
            # frame_type written must invert what the reader derives from it
            self.tag_roundtrip(T, m, v, wr, tag_names, lo, hi)
        want_cov = sorted((r["lo"], r["hi"]) for r in U["ranges"])
        got_cov = sorted((a, b) for a, b, _ in covered)
        R.inst(rid, "frames:coverage:%s" % T, want_cov == got_cov, sp=self.sp(m), expect=want_cov, got=got_cov,
               detail="the variants' frame_type ranges are exactly the JVMS ranges; reserved values %s fall through to the Err arm" % U.get("reserved"))
        self.fallback(T, m)

    def tag_roundtrip(self, T, m, v, wr, tag_names, lo, hi):
        R, rid = self.R, self.rid
        where = "%s::%s" % (T, v["name"])
        key = "tag-roundtrip:" + where
        sp = self.sp(m, v["line"])
        vs = wr.vars()
        if not vs:
            R.inst(rid, key, lo == hi == wr.const_value(), sp=sp, expect="%d" % lo, got=wr.show(), nontrivial=False)
            return
        if len(vs) != 1:
            R.unrecognised(rid, key, "tag expression over several variables: %s" % wr.show(), sp)
            return
        x = vs[0]
        reader = None
        for it in v["items"]:
            if it.get("nowrite") is not None and x == it["name"]:
                reader = it["nowrite"]
            if it.get("ext") is not None and x == "len(%s)" % it["name"]:
                reader = it["ext"]
        if reader is None:
            R.inst(rid, key, False, sp=sp, detail="frame_type is computed from `%s`, which the reader does not derive from frame_type" % x)
            return
        try:
            rd = parse_expr(reader).rename(lambda n: "tag" if n in tag_names else n)
        except Unrecognised as e:
            R.unrecognised(rid, key, str(e), sp)
            return
        comp = rd.subst("tag", wr)
        R.inst(rid, key, comp == Poly.var(x), sp=sp, expect="read(write(%s)) = %s" % (x, x), got=comp.show(),
               detail="writer computes frame_type = %s, reader computes %s = %s" % (wr.show(), x, rd.show()))

    def compare_attributes(self, T, m, U, tag_w):
        R, rid = self.R, self.rid
        seen = {}
        catch_all_at = None
        for idx, v in enumerate(m["variants"]):
            where = "%s::%s" % (T, v["name"])
            sp = self.sp(m, v["line"])
            try:
                pat = parse_pattern(v["tag_pat"])
                wr = parse_expr(v["tag_expr"])
            except Unrecognised as e:
                R.unrecognised(rid, "attr:" + where, str(e), sp)
                continue
            if pat["kind"] != "bind":
                R.unrecognised(rid, "attr:" + where, "attribute variants bind the name index: %s" % tok_text(v["tag_pat"]), sp)
                continue
            tag_names = [m["tag_name"], pat["name"]]
            # the name index that is written is the variant's own nowrite field, which the reader sets from the tag
            nw = [it for it in v["items"] if it.get("nowrite") is not None]
            rt_ok = False
            if len(nw) == 1 and wr.vars() == [nw[0]["name"]] and wr == Poly.var(nw[0]["name"]):
                try:
                    rt_ok = parse_expr(nw[0]["nowrite"]).rename(lambda n: "tag" if n in tag_names else n) == Poly.var("tag")
                except Unrecognised:
                    rt_ok = False
            R.inst(rid, "tag-roundtrip:" + where, rt_ok, sp=sp,
                   detail="attribute_name_index written = the variant's name-index field = the index that was read",
                   got="writes %s; field := %s" % (tok_text(v["tag_expr"]), tok_text(nw[0]["nowrite"]) if nw else None))
            if v["guard"] is None:
                if catch_all_at is None:
                    catch_all_at = idx
                body = U["generic"]
                self.compare_items(T, m, v["items"], U["header"] + body, v["name"], tag_w, tag_names, tag_is_first_atom=True)
                continue
            g = v["guard"]
            name = None
            if (len(g) == 3 and g[0].get("t") == "ident" and g[1].get("d") == "(" and g[2].get("s") == "?"):
                self.lookup_fns.add(g[0]["s"])      # the private helper the guards call (anchored by role, not by name)
                args = [a for a in _split(g[1]["ts"])]
                if len(args) == 3 and len(args[0]) == 1 and args[0][0].get("s") == m["pool_alias"] and len(args[1]) == 1 and \
                        args[1][0].get("s") == pat["name"] and len(args[2]) == 1 and args[2][0]["t"] == "lit":
                    l = parse_lit(args[2][0]["s"])
                    if l and l[0] == "bytes":
                        name = l[1].decode("latin-1")
            if name is None:
                R.unrecognised(rid, "attr:" + where, "guard is not <lookup fn>(<pool>, <name index>, b\"...\")?: %s" % tok_text(g), sp)
                continue
            ok = name == v["name"] and name in U["by_name"] and name not in seen and catch_all_at is None
            R.inst(rid, "attr-name:" + where, ok, sp=sp, expect="variant %s selected by the Utf8 name \"%s\", before the catch-all" % (v["name"], v["name"]),
                   got="\"%s\"%s%s" % (name, " (duplicate)" if name in seen else "", " (after the catch-all variant: unreachable)" if catch_all_at is not None else ""))
            seen[name] = v["name"]
            if name in U["by_name"]:
                self.compare_items(T, m, v["items"], U["header"] + U["by_name"][name], v["name"], tag_w, tag_names, tag_is_first_atom=True)
        R.inst(rid, "attr-catch-all:%s" % T, catch_all_at == len(m["variants"]) - 1 and m["fallback"] is None, sp=self.sp(m),
               detail="exactly one unguarded variant, placed last, keeps every other attribute as attribute_length opaque bytes",
               got="catch-all at position %s of %d" % (catch_all_at, len(m["variants"])))
        missing = [n for n in U["by_name"] if n not in seen]
        R.note("attributes of the JVMS not modelled by %s (kept as opaque bytes by the catch-all variant): %s" % (T, missing + U.get("opaque_ok", [])))


def _split(ts):
    out, cur = [], []
    for t in ts:
        if t.get("t") == "punct" and t.get("s") == ",":
            out.append(cur)
            cur = []
        else:
            cur.append(t)
    if cur:
        out.append(cur)
    return out
