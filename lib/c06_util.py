"""Normal-form terms of HIR-lite expressions (used by the C06 / C08 / C11 rule modules).

`Norm(body, param_names).term(expr)` abstracts an expression to a hashable term in which
  * immutable locals are replaced by what they were bound to (`let`, `if let`, match arms, `for`, closure
    parameters of element-wise adaptors); tuple / tuple-struct / struct / slice patterns are projected
    component-wise, so `(Some(a), Some(b)) = (&x[i], &y[j])` binds a to x[i] and b to y[j];
  * borrows, derefs, `?`, `Some(..)`/`Ok(..)`, and representation-only calls (clone, to_owned, as_slice, into,
    with_context, from_inner_unchecked, ...) are transparent;
  * `unwrap_or(_else)` and `match { Some(x) => x, None => y }` both become orelse(a, y); `.map(closure)` becomes
    each(recv, body) with the closure parameter standing for elem(recv);
  * parameters are named by position through `param_names` (so renaming a parameter or a local changes nothing).
Reference terms are written in a small infix notation (`parse`) in the spec files / rule modules:
    $x            a spec variable (parameter or a local identified by the rule)
    e.f  e[i]     field, index;        f(a, b)   call;     (a, b)  tuple;     T{f: e}  struct;   #None  #V(a)  constructor
    elem(e) orelse(a, b) each(recv, body) proj(i, e) tail(e, k) case(e, K: a, _: b) if(c, a, b) not(e) bin("op", a, b)
This is normalisation of program text against program text; nothing is executed.
"""
from . import hir as H

IDENT = {"clone", "to_owned", "cloned", "copied", "as_ref", "as_mut", "as_deref", "as_deref_mut", "as_slice", "into", "borrow",
         "borrow_mut", "as_inner", "into_inner", "from", "deref", "deref_mut", "with_context", "context", "iter", "into_iter",
         "iter_mut", "by_ref", "from_inner_unchecked", "to_vec", "as_str", "as_java_str", "to_string", "as_class_name",
         # `opt.ok_or(e)` / `opt.ok_or_else(|| e)`: like `opt.context(..)` the payload with None turned into an error (the error side is
         # transparent in terms, as with `?`); who may turn a None into an error is a question for the rules that account for refusals
         "ok_or", "ok_or_else"}
TRANSPARENT_CTORS = {"Some", "Ok"}
ELEMWISE = {"map", "filter", "find", "for_each", "any", "all", "is_some_and", "is_none_or", "and_then", "filter_map",
            "flat_map", "inspect", "take_while", "skip_while", "position", "find_map", "retain", "map_or", "map_or_else"}
QUALIFY = {"new", "default", "with_capacity"}
OPTION_TO_RESULT = {"context", "with_context", "ok_or", "ok_or_else"}


# ------------------------------------------------------------------------------------------- smart constructors
def mk_elem(t):
    if t[0] == "call" and t[1] == "values" and len(t[2]) == 1:
        return mk_proj(1, mk_elem(t[2][0]))
    if t[0] == "call" and t[1] == "keys" and len(t[2]) == 1:
        return mk_proj(0, mk_elem(t[2][0]))
    if t[0] == "each":
        # element of a mapped sequence = the body (which talks about elem(recv))
        return t[2]
    if t[0] == "call" and t[1] == "filter_map" and len(t[2]) == 2 and t[2][1][0] == "lam":
        # the payload of the closure's Some(..) (Some is transparent), expressed over elem(recv)
        return _some_payload(t[2][1][1])
    if t[0] == "call" and t[1] in ("filter", "inspect") and len(t[2]) == 2:
        return mk_elem(t[2][0])
    if t[0] == "call" and t[1] == "zip" and len(t[2]) == 2:
        return ("tuple", (mk_elem(t[2][0]), mk_elem(t[2][1])))
    if t[0] == "call" and t[1] == "enumerate" and len(t[2]) == 1:
        return ("tuple", (("index", t[2][0]), mk_elem(t[2][0])))
    return ("elem", t)


def _some_payload(t):
    """`match x { <pat> => Some(v), _ => None }` as the body of a filter_map closure: the one alternative that is not None (the
    conditions under which it is taken are judged by the rules that look at the closure itself)"""
    if t[0] == "case" and len(t) == 3:
        vals = [a[1] for a in t[2] if a[1] != ("ctor", "None", ())]
        if len(vals) == 1 and len(t[2]) >= 2:
            return _some_payload(vals[0])
    return t


def mk_proj(i, t):
    if t[0] == "tuple" and i < len(t[1]):
        return t[1][i]
    if t[0] == "ctor" and i < len(t[2]):
        return t[2][i]
    if t[0] == "call" and t[1] == "find" and len(t[2]) == 2 and t[2][0][0] == "call" and t[2][0][1] == "enumerate" and i in (0, 1):
        # first (index, element) of `Y.enumerate()` whose element satisfies c: the index is `Y.position(c)`, the element `Y.find(c)`
        y, lam = t[2][0][2][0], t[2][1]
        if not contains(lam, ("index", y)):
            return ("call", "position" if i == 0 else "find", (y, lam))
    return ("proj", i, t)


def mk_field(t, name):
    if t[0] == "struct":
        for k, v in t[2]:
            if k == name:
                return v
    if name.isdigit():
        return mk_proj(int(name), t)
    return ("f", t, name)


def mk_call(name, args):
    args = tuple(args)
    if name in IDENT and len(args) >= 1:
        return args[0]
    if name in ("unwrap_or", "unwrap_or_else") and len(args) == 2:
        b = args[1]
        if b[0] == "lam":
            b = b[1]
        return mk_orelse(args[0], b)
    return ("call", name, args)


def mk_orelse(a, b):
    if b == ("ctor", "None", ()):
        return a
    return ("orelse", a, b)


def mk_vproj(variant, i, t):
    if t[0] == "ctor" and t[1] == variant and i < len(t[2]):
        return t[2][i]
    return ("vproj", variant, i, t)


_CMP_NEG = {">=": "<", "!=": "=="}


def canon_cond(t):
    """(canonical condition, polarity): only `<` and `==` comparisons, `==` operands ordered, no outer `not`."""
    pol = True
    while True:
        if t[0] == "not":
            t, pol = t[1], not pol
            continue
        if t[0] == "bin":
            op, l, r = t[1], t[2], t[3]
            if op == ">=":
                t, pol = ("bin", "<", l, r), not pol
            elif op == "<=":
                t, pol = ("bin", "<", r, l), not pol
            elif op == ">":
                t = ("bin", "<", r, l)
            elif op == "!=":
                t, pol = ("bin", "==", l, r), not pol
                continue
            if t[1] == "==" and show(t[3]) < show(t[2]):
                t = ("bin", "==", t[3], t[2])
        return t, pol


def mk_bin(op, l, r):
    """comparisons are expressed with `<`, `==` (operands ordered) and `not`"""
    if op in ("==", "!=", "<", ">", "<=", ">="):
        c, pol = canon_cond(("bin", op, l, r))
        return c if pol else ("not", c)
    return ("bin", op, l, r)


def mk_if(c, a, b):
    c, pol = canon_cond(c)
    if not pol:
        a, b = b, a
    if a == b:
        return a
    return ("if", c, a, b)


def mk_each(recv, body, option_like=False):
    """`recv.map(|x| body)`.  For Option/Result receivers x is the payload = recv itself (transparent)."""
    if body == (recv if option_like else mk_elem(recv)):
        return recv
    if option_like:
        return ("omap", recv, body)
    return ("each", recv, body)


def is_option_like(node):
    ty = node.get("ty") or ""
    return ty.startswith(("core::option::Option<", "core::result::Result<", "&core::option::Option<", "&core::result::Result<"))


OPTION_KEYS = {"Some", "None", "Ok", "Err", "_"}
ERR = ("err",)
NONE = ("ctor", "None", ())
LOOP_EXITS = (("continue",), ("break",))


def mk_case(scrut, arms, skips_transparent=False):
    """arms: list of (key, term, binds_something).
    skips_transparent: arms that leave the iteration (`None => continue`) are treated like error arms (see Norm.skips_transparent)."""
    d = {}
    for k, t, _ in arms:
        d.setdefault(k, t)
    if any(k.startswith("Ok(") for k in d) and all((k.startswith("Ok(") and k.endswith(")")) or (k in ("Err", "_") and d[k] == ERR) for k in d):
        # a `Result<Option<T>>` (or any `Result<enum>`) taken apart in one match: `Ok(Some(x)) => .., Ok(None) => .., Err(e) => Err(e)`
        # = `match scrut? { Some(x) => .., None => .. }` (the error arm is the propagation `?` performs; `Ok` is transparent)
        return mk_case(scrut, [(k[3:-1], t, b) for k, t, b in arms if k.startswith("Ok(")], skips_transparent)
    keys = set(d)
    binds = {k: b for k, _, b in arms}
    if keys == {"Some", "None"}:
        d["_"] = d.pop("None")
    elif keys == {"Ok", "Err"} and not binds.get("Err"):
        d["_"] = d.pop("Err")
    if set(d) <= OPTION_KEYS:
        # error propagation (`?`, `let .. else { bail }`, `match { Ok(v) => v, Err(e) => return Err(e) }`, `.context(..)?`):
        # the error arms of an Option/Result scrutinee are transparent, like `?`
        # so are arms that leave the iteration (`None => continue`): the expression yields a value only on the other arm;
        # whether skipping is allowed there is a question about the loop (path conditions), not about the value
        live = {k: v for k, v in d.items() if v != ERR and not (skips_transparent and v in LOOP_EXITS)}
        if len(live) == 1 and len(d) > 1:
            (k, v), = live.items()
            if k in ("Some", "Ok"):
                return v
    for pos in ("Some", "Ok"):
        if set(d) == {pos, "_"}:
            if d[pos] == scrut:
                return mk_orelse(scrut, d["_"])
            if d["_"] == NONE and pos == "Some":
                return mk_each(scrut, d[pos], True)
            # case(X, Some: case(Y, Some: A, _: R), _: R) with Y computed from X's payload = case(Y, Some: A, _: R)
            inner = d[pos]
            if inner[0] == "case" and dict(inner[2]).get("_") == d["_"] and set(dict(inner[2])) == {"Some", "_"} and contains(inner[1], scrut):
                return inner
            if inner[0] == "orelse" and inner[2] == d["_"] and contains(inner[1], scrut):
                return inner
    if len(d) == 1 and "_" in d:
        return d["_"]
    return ("case", scrut, tuple(sorted(d.items())))


def mk_struct(name, fields):
    return ("struct", name, tuple(sorted(fields)))


# ------------------------------------------------------------------------------------------- printing
def show(t, depth=0):
    if not isinstance(t, tuple) or not t:
        return repr(t)
    if depth > 14:
        return "…"
    s = lambda x: show(x, depth + 1)
    k = t[0]
    if k == "p":
        return "$" + str(t[1])
    if k == "local":
        return "$" + str(t[2]) + "'"
    if k == "lit":
        return repr(t[1]) if isinstance(t[1], str) else str(t[1])
    if k == "f":
        return "%s.%s" % (s(t[1]), t[2])
    if k == "idx":
        return "%s[%s]" % (s(t[1]), s(t[2]))
    if k == "proj":
        return "proj(%d, %s)" % (t[1], s(t[2]))
    if k == "vproj":
        return "proj(%s.%d, %s)" % (t[1], t[2], s(t[3]))
    if k == "index":
        return "index(%s)" % s(t[1])
    if k == "elem":
        return "elem(%s)" % s(t[1])
    if k == "tail":
        return "tail(%s, %d)" % (s(t[1]), t[2])
    if k == "call":
        return "%s(%s)" % (t[1], ", ".join(s(a) for a in t[2]))
    if k == "ctor":
        return "#%s%s" % (t[1], ("(%s)" % ", ".join(s(a) for a in t[2])) if t[2] else "")
    if k == "struct":
        return "%s{%s}" % (t[1], ", ".join("%s: %s" % (a, s(b)) for a, b in t[2]))
    if k == "tuple":
        return "(%s)" % ", ".join(s(a) for a in t[1])
    if k == "array":
        return "[%s]" % ", ".join(s(a) for a in t[1])
    if k == "repeat":
        return "repeat(%s)" % s(t[1])
    if k == "each":
        return "each(%s, %s)" % (s(t[1]), s(t[2]))
    if k == "orelse":
        return "orelse(%s, %s)" % (s(t[1]), s(t[2]))
    if k == "omap":
        return "omap(%s, %s)" % (s(t[1]), s(t[2]))
    if k == "case":
        return "case(%s, %s)" % (s(t[1]), ", ".join("%s: %s" % (a, s(b)) for a, b in t[2]))
    if k == "if":
        return "if(%s, %s, %s)" % (s(t[1]), s(t[2]), s(t[3]))
    if k == "bin":
        return "bin(\"%s\", %s, %s)" % (t[1], s(t[2]), s(t[3]))
    if k in ("not", "neg", "lam", "cast", "ret"):
        return "%s(%s)" % (k, s(t[1]))
    if k == "fn":
        return "fn:" + t[1]
    if k == "cparam":
        return "<closure-param %s of %s>" % (t[1], t[2])
    return "%s()" % k


def children(t):
    k = t[0]
    if k in ("f", "elem", "not", "neg", "lam", "cast", "ret", "repeat", "tail"):
        return [t[1]]
    if k == "idx":
        return [t[1], t[2]]
    if k == "proj":
        return [t[2]]
    if k == "vproj":
        return [t[3]]
    if k == "index":
        return [t[1]]
    if k in ("call", "ctor"):
        return list(t[2])
    if k == "struct":
        return [v for _, v in t[2]]
    if k in ("tuple", "array"):
        return list(t[1])
    if k in ("each", "orelse", "omap"):
        return [t[1], t[2]]
    if k == "case":
        return [t[1]] + [v for _, v in t[2]]
    if k == "if":
        return [t[1], t[2], t[3]]
    if k == "bin":
        return [t[2], t[3]]
    return []


def subterms(t):
    yield t
    for c in children(t):
        yield from subterms(c)


def contains(t, sub):
    return any(x == sub for x in subterms(t))


def leaves(t):
    """Parameters / locals / literals a term is built from."""
    return [x for x in subterms(t) if isinstance(x, tuple) and x and x[0] in ("p", "local", "lit")]


def calls_in(t):
    return [x for x in subterms(t) if isinstance(x, tuple) and x and x[0] == "call"]


# ------------------------------------------------------------------------------------------- the normaliser
class Norm:
    def __init__(self, body, param_names=None, locals_env=None, skips_transparent=False):
        """body: a body record of the facts. param_names: spec names by position (default: the declared names).
        skips_transparent: `match x { Some(v) => v, None => continue }` has the value x (like `x?`); only for rules that account
        for every way to leave the loop themselves (path conditions + exits, e.g. R06.8) -- otherwise the skip stays visible as
        orelse(x, continue())."""
        self.skips_transparent = skips_transparent
        self.body = body
        self.root = body["body"]
        self.params = {}
        self.mut = set()
        self.binders = {}
        self.env = dict(locals_env or {})     # local id -> term (rule-supplied overrides)
        self._stack = set()
        names = list(param_names) if param_names else None
        self.param_count = len(body["params"])
        for i, p in enumerate(body["params"]):
            nm = names[i] if names and i < len(names) else None
            if p.get("k") == "bind" and "sub" not in p:
                self.params[p["id"]] = ("p", nm or p["name"])
            else:
                self._bind(p, ("term", ("p", nm or ("#%d" % i))), ())
        self._collect()

    # -- binder collection
    def _bind(self, p, src, path):
        k = p.get("k")
        if k == "bind":
            if "mut" in (p.get("mode") or "").split():
                self.mut.add(p["id"])
            self.binders.setdefault(p["id"], (src, path, p["name"]))
            if "sub" in p:
                self._bind(p["sub"], src, path)
        elif k == "ptuple":
            for i, x in enumerate(p["pats"]):
                self._bind(x, src, path + (("t", i),))
        elif k == "ptuplestruct":
            v = p["res"].get("variant") or (p["res"].get("adt") or p["res"].get("path") or "?").rsplit("::", 1)[-1]
            for i, x in enumerate(p["pats"]):
                self._bind(x, src, path + (("v", v, i, bool(p["res"].get("variant"))),))
        elif k == "pstruct":
            for f in p["fields"]:
                self._bind(f["pat"], src, path + (("f", f["name"]),))
        elif k == "por":
            for x in p["pats"]:
                self._bind(x, src, path)
        elif k in ("pref", "pbox", "pderef", "pguard"):
            self._bind(p["pat"], src, path)
        elif k == "pslice":
            for i, x in enumerate(p["before"]):
                self._bind(x, src, path + (("s", i),))
            if p.get("mid"):
                self._bind(p["mid"], src, path + (("tail", len(p["before"])),))
            for i, x in enumerate(p["after"]):
                self._bind(x, src, path + (("s", -(len(p["after"]) - i)),))

    def _collect(self):
        for n, parents in H.walk_with_parents(self.root):
            k = n.get("k")
            if k == "let" and "init" in n:
                self._bind(n["pat"], ("expr", n["init"]), ())
            elif k == "let":
                self._bind(n["pat"], ("term", ("opaque", "uninit")), ())
            elif k == "letexpr":
                self._bind(n["pat"], ("expr", n["init"]), ())
            elif k == "match":
                for a in n["arms"]:
                    self._bind(a["pat"], ("expr", n["scrut"]), ())
            elif k == "for":
                self._bind(n["pat"], ("elemof", n["iter"]), ())
            elif k == "closure":
                ctx = None
                for p in reversed(parents):
                    if p.get("k") in ("ref", "block") and H.peel(p) is n:
                        continue
                    ctx = p
                    break
                src = None
                if ctx is not None and ctx.get("k") == "mcall" and ctx["name"] in ELEMWISE and any(H.peel(a) is n for a in ctx["args"]):
                    # Option / Result adaptors hand over the payload (transparent, like a `Some(x)` pattern);
                    # iterator / array adaptors hand over an element
                    src = ("expr", ctx["recv"]) if is_option_like(ctx["recv"]) else ("elemof", ctx["recv"])
                for i, prm in enumerate(n["params"]):
                    if src is not None and i == 0:
                        self._bind(prm, src, ())
                    else:
                        cname = ctx["name"] if ctx is not None and ctx.get("k") == "mcall" else (H.callee_name(ctx) if ctx is not None else "?")
                        self._bind(prm, ("term", ("cparam", i, str(cname))), ())

    # -- locals
    def local(self, lid, name="?"):
        if lid in self.env:
            return self.env[lid]
        if lid in self.params:
            return self.params[lid]
        if lid in self.mut:
            return ("local", lid, name)
        b = self.binders.get(lid)
        if b is None:
            return ("local", lid, name)
        if lid in self._stack:
            return ("opaque", "cycle")
        src, path, _ = b
        self._stack.add(lid)
        try:
            if src[0] == "expr":
                t = self.term(src[1])
            elif src[0] == "elemof":
                t = mk_elem(self.term(src[1]))
            else:
                t = src[1]
        finally:
            self._stack.discard(lid)
        for st in path:
            t = self._project(t, st)
        return t

    def init_term(self, lid):
        """Initial value of a (mutable) local."""
        b = self.binders.get(lid)
        if not b:
            return None
        src, path, _ = b
        t = self.term(src[1]) if src[0] == "expr" else (mk_elem(self.term(src[1])) if src[0] == "elemof" else src[1])
        for st in path:
            t = self._project(t, st)
        return t

    @staticmethod
    def _project(t, st):
        if st[0] == "t":
            return mk_proj(st[1], t)
        if st[0] == "v":
            if st[1] in TRANSPARENT_CTORS:
                return t
            if st[1] == "Err":
                return ("call", "err_of", (t,))
            if t[0] == "ctor" and t[1] == st[1]:
                return t[2][st[2]]
            if len(st) > 3 and st[3]:
                return mk_vproj(st[1], st[2], t)      # payload of a (non-Option) enum variant: keep the variant name
            return mk_proj(st[2], t)
        if st[0] == "f":
            return mk_field(t, st[1])
        if st[0] == "s":
            return ("idx", t, ("lit", st[1]))
        if st[0] == "tail":
            return ("tail", t, st[1])
        return ("opaque", "proj")

    # -- expressions
    @staticmethod
    def call_name(n):
        if n.get("k") == "mcall":
            return n["name"]
        c = n.get("callee") or {}
        p = c.get("path") or ""
        nm = p.rsplit("::", 1)[-1]
        if nm in QUALIFY and "::" in p:
            owner = p.rsplit("::", 1)[0]
            # strip generic argument lists: `Namespace::<N>` / `IndexMap::<K, V>`
            while owner.endswith(">"):
                depth = 0
                i = len(owner) - 1
                while i >= 0:
                    if owner[i] == ">":
                        depth += 1
                    elif owner[i] == "<":
                        depth -= 1
                        if depth == 0:
                            break
                    i -= 1
                owner = owner[:i].rstrip(":")
            return owner.rsplit("::", 1)[-1] + "::" + nm
        return nm

    def term(self, n, depth=0):
        if depth > 60:
            return ("opaque", "deep")
        T = lambda x: self.term(x, depth + 1)
        k = n.get("k")
        if k in ("ref", "semi", "try", "await"):
            return T(n["e"])
        if k == "un":
            if n["op"] == "deref":
                return T(n["e"])
            if n["op"] == "!":
                c, pol = canon_cond(("not", T(n["e"])))
                return c if pol else ("not", c)
            return ("neg", T(n["e"]))
        if k == "cast":
            return ("cast", T(n["e"]))
        if k == "path":
            r = n["res"]
            if r.get("r") == "local":
                return self.local(r["id"], r.get("name", "?"))
            if "value" in r and not isinstance(r["value"], (dict, list)):
                return ("lit", r["value"])
            if r.get("variant"):
                return ("ctor", r["variant"], ())
            dk = r.get("dk", "")
            if dk.startswith("Ctor") or r.get("r") == "selfctor":
                return ("ctor", (r.get("adt") or r.get("path") or "?").split("<")[0].rsplit("::", 1)[-1], ())
            if dk in ("Fn", "AssocFn"):
                return ("fn", (r.get("path") or "?").rsplit("::", 1)[-1])
            if dk in ("ConstParam",):
                return ("lit", (r.get("path") or "?").rsplit("::", 1)[-1])
            return ("opaque", (r.get("path") or dk or "?").rsplit("::", 1)[-1])
        if k == "lit":
            lit = n.get("lit") or {}
            v = lit.get("v")
            return ("lit", tuple(v) if isinstance(v, list) else v)
        if k == "field":
            return mk_field(T(n["e"]), n["name"])
        if k == "index":
            return ("idx", T(n["e"]), T(n["i"]))
        if k == "block":
            if not self._has_ret(n) and H.is_err_exit(n):
                return ("err",)
            if self._needs_fold(n):
                return self.fold(n["stmts"], n.get("tail"), None, depth + 1)
            if "tail" in n:
                return T(n["tail"])
            if n["stmts"] and H.diverges(n):
                return ("diverge",)
            return ("unit",)
        if k == "tuple":
            return ("tuple", tuple(T(e) for e in n["es"]))
        if k == "array":
            return ("array", tuple(T(e) for e in n["es"]))
        if k == "repeat":
            return ("repeat", T(n["e"]))
        if k == "struct":
            name = n.get("variant") or (n.get("adt") or "?").rsplit("::", 1)[-1]
            fs = [(f["name"], T(f["e"])) for f in n["fields"]]
            if isinstance(n.get("base"), dict):
                fs.append(("..", T(n["base"])))
            return mk_struct(name, fs)
        if k == "closure":
            return ("lam", T(n["body"]))
        if k == "call":
            c = n.get("callee") or {}
            if c.get("dk", "").startswith("Ctor") or c.get("r") == "selfctor":
                # `Self(..)` inside an impl is the tuple constructor of the impl's type
                name = c.get("variant") or (c.get("adt") or c.get("path") or "?").split("<")[0].rsplit("::", 1)[-1]
                if name in TRANSPARENT_CTORS and len(n["args"]) == 1:
                    return T(n["args"][0])
                if name == "Err" and len(n["args"]) == 1 and is_option_like(n):
                    return ERR                  # `Err(anyhow!(..))` as a value = `bail!(..)` / `return Err(..)`: the error exit
                return ("ctor", name, tuple(T(a) for a in n["args"]))
            if not c:
                f = T(n["f"]) if "f" in n else ("opaque", "callee")
                return ("call", "<indirect>", (f,) + tuple(T(a) for a in n["args"]))
            if self.call_name(n) == "zip" and len(n["args"]) == 2 and is_option_like(n["args"][0]):
                return ("tuple", (T(n["args"][0]), T(n["args"][1])))
            return mk_call(self.call_name(n), [T(a) for a in n["args"]])
        if k == "mcall":
            name = n["name"]
            recv = T(n["recv"])
            args = n["args"]
            if name == "map" and len(args) == 1:
                a0 = H.peel(args[0])
                opt = is_option_like(n["recv"])
                if a0.get("k") == "closure":
                    return mk_each(recv, T(a0["body"]), opt)
                ft = T(a0)
                if ft[0] == "ctor" and ft[1] in TRANSPARENT_CTORS:
                    return recv
                if ft[0] == "fn":
                    return mk_each(recv, mk_call(ft[1], [recv if opt else mk_elem(recv)]), opt)
                if ft[0] == "ctor" and ft[2] == () and ("Fn" in ((a0.get("res") or {}).get("dk") or "") or (a0.get("res") or {}).get("r") == "selfctor"):
                    # a tuple constructor used as a function value: `.map(Namespace)` = `.map(|x| Namespace(x))`
                    return mk_each(recv, ("ctor", ft[1], (recv if opt else mk_elem(recv),)), opt)
            if name in ("map_or", "map_or_else") and len(args) == 2 and (n["recv"].get("ty") or "").lstrip("&").startswith("core::option::Option<"):
                # `opt.map_or(d, f)` / `opt.map_or_else(|| d, f)` = `match opt { Some(x) => f(x), None => d }` (= `opt.map(f).unwrap_or(d)`)
                dflt = T(args[0])
                if name == "map_or_else":
                    dflt = dflt[1] if dflt[0] == "lam" else (mk_call(dflt[1], []) if dflt[0] == "fn" else ("call", "<indirect>", (dflt,)))
                a1 = H.peel(args[1])
                if a1.get("k") == "closure":
                    some = T(a1["body"])
                else:
                    ft = T(a1)
                    if ft[0] == "ctor" and ft[1] in TRANSPARENT_CTORS:
                        some = recv
                    elif ft[0] == "fn":
                        some = mk_call(ft[1], [recv])
                    elif ft[0] == "ctor" and ft[2] == ():
                        some = ("ctor", ft[1], (recv,))
                    else:
                        some = ("call", "<indirect>", (ft, recv))
                return mk_case(recv, [("Some", some, True), ("_", dflt, False)], self.skips_transparent)
            if name in OPTION_TO_RESULT and recv[0] == "omap" and (n["recv"].get("ty") or "").startswith("core::option::Option<"):
                # `opt.map(f).context(..)` = `match opt { Some(x) => Ok(f(x)), None => bail!(..) }`: None becomes the error exit,
                # which is transparent (like `?`), so the value is the mapped payload
                return recv[2]
            if name == "and_then" and len(args) == 1 and is_option_like(n["recv"]):
                a0 = H.peel(args[0])
                if a0.get("k") == "closure":
                    body = T(a0["body"])
                    if contains(body, recv):
                        return body          # Some iff recv is Some and the body is Some; the payload is the body's
            if name == "zip" and len(args) == 1 and is_option_like(n["recv"]):
                return ("tuple", (recv, T(args[0])))
            return mk_call(name, [recv] + [T(a) for a in args])
        if k == "if":
            c = H.peel(n["cond"], refs=False)
            if c.get("k") == "letexpr":
                scrut = T(c["init"])
                key, binds = self._pat_key(c["pat"])
                arms = [(key, T(n["then"]), binds)]
                if "else" in n:
                    arms.append(("_", T(n["else"]), False))
                else:
                    arms.append(("_", ("unit",), False))
                return mk_case(scrut, arms, self.skips_transparent) if key != "_" else T(n["then"])
            return mk_if(T(n["cond"]), T(n["then"]), T(n["else"]) if "else" in n else ("unit",))
        if k == "letexpr":
            return ("call", "<let>", (T(n["init"]),))
        if k == "match":
            scrut = T(n["scrut"])
            arms = []
            for a in n["arms"]:
                key, binds = self._pat_key(a["pat"])
                if "guard" in a:
                    key = key + " if " + show(T(a["guard"]))
                arms.append((key, T(a["body"]), binds))
            if len(arms) == 1 and arms[0][0] == "_":
                return arms[0][1]
            return mk_case(scrut, arms, self.skips_transparent)
        if k == "bin":
            return mk_bin(n["op"], T(n["l"]), T(n["r"]))
        if k == "ret":
            if H.is_err_exit(n):
                return ("err",)
            return ("ret", T(n["e"])) if "e" in n else ("ret", ("unit",))
        if k in ("break", "continue"):
            return (k,)
        if k in ("assign", "assignop", "let", "for", "loop"):
            return ("stmt",)
        return ("opaque", str(k))

    # -- sequential folding: early returns, let-else, diverging lets, search loops
    @staticmethod
    def _has_ret(n):
        """a `return` of a value (not an error exit) somewhere in n, closures excluded"""
        return any(x.get("k") == "ret" and not H.is_err_exit(x) for x in H.walk(n, into_closures=False))

    def _needs_fold(self, block):
        for s in block["stmts"]:
            s0 = H.peel(s, refs=False)
            if s0.get("k") == "let" and ("els" in s0 or self._hoistable(s0)):
                return True
            if s0.get("k") in ("if", "match", "for", "loop", "block", "ret") and (self._has_ret(s0) or self._is_guard(s0)):
                return True
        return False

    @staticmethod
    def _is_guard(s0):
        """`if c { <error exit> }` statement: part of the value's decision structure"""
        return s0.get("k") == "if" and "else" not in s0 and H.diverges(s0["then"])

    def _hoistable(self, let):
        """`let x = match e { P => v, Q => <diverges> }` / `if c { v } else { <diverges> }`: (live arms, dead arms)"""
        init = H.peel(let.get("init") or {}, refs=False) if "init" in let else {}
        if init.get("k") == "match":
            dead = [a for a in init["arms"] if H.diverges(a["body"])]
            live = [a for a in init["arms"] if not H.diverges(a["body"])]
            if dead and len(live) == 1 and "guard" not in live[0]:
                return init, live, dead
        return None

    def bind_env(self, p, t):
        """Bind the variables of pattern p to (projections of) term t, overriding the flow-insensitive binders."""
        saved = self.binders
        self.binders = {}
        self._bind(p, ("term", t), ())
        fresh = self.binders
        self.binders = saved
        for lid, (src, path, name) in fresh.items():
            v = src[1]
            for st in path:
                v = self._project(v, st)
            self.env[lid] = v

    def value(self, e, depth=0):
        """Term of the value an expression evaluates to, where `return v` inside it makes v the value."""
        e0 = H.peel(e, refs=False)
        k = e0.get("k")
        if k == "block":
            if not self._has_ret(e0) and H.is_err_exit(e0):
                return ERR
            return self.fold(e0["stmts"], e0.get("tail"), None, depth + 1)
        if k == "ret":
            if H.is_err_exit(e0):
                return ERR
            return self.value(e0["e"], depth + 1) if "e" in e0 else ("unit",)
        if k in ("semi", "try"):
            return self.value(e0["e"], depth + 1)
        if k == "call" and (e0.get("callee") or {}).get("variant") in TRANSPARENT_CTORS and len(e0["args"]) == 1:
            return self.value(e0["args"][0], depth + 1)
        if k == "if" and self._has_ret(e0):
            c = H.peel(e0["cond"], refs=False)
            th = self.value(e0["then"], depth + 1)
            el = self.value(e0["else"], depth + 1) if "else" in e0 else ("unit",)
            if c.get("k") == "letexpr":
                key, binds = self._pat_key(c["pat"])
                return mk_case(self.term(c["init"]), [(key, th, binds), ("_", el, False)], self.skips_transparent)
            return mk_if(self.term(e0["cond"]), th, el)
        if k == "match" and self._has_ret(e0):
            arms = []
            for a in e0["arms"]:
                key, binds = self._pat_key(a["pat"])
                arms.append((key, self.value(a["body"], depth + 1), binds))
            return mk_case(self.term(e0["scrut"]), arms, self.skips_transparent)
        return self.term(e0, depth + 1)

    def fold(self, stmts, tail, cont, depth=0):
        """Value of `{ stmts; tail }` followed by `cont()` (None: the tail is the value)."""
        if depth > 40:
            return ("opaque", "deep")
        if not stmts:
            if cont is None:
                return self.value(tail, depth + 1) if tail is not None else ("unit",)
            if tail is not None:
                return self.stmt(tail, cont, depth + 1)
            return cont()
        return self.stmt(stmts[0], lambda: self.fold(stmts[1:], tail, cont, depth + 1), depth + 1)

    def stmt(self, s, nxt, depth=0):
        s0 = H.peel(s, refs=False)
        k = s0.get("k")
        if k == "ret":
            return self.value(s0, depth + 1)
        if not self._has_ret(s0) and H.is_err_exit(s0):
            return ERR
        if k == "let" and "els" in s0:
            key, binds = self._pat_key(s0["pat"])
            return mk_case(self.term(s0["init"]), [(key, nxt(), binds), ("_", self.value(s0["els"], depth + 1), False)], self.skips_transparent)
        if k == "let":
            h = self._hoistable(s0)
            if h:
                init, live, dead = h
                scrut = self.term(init["scrut"])
                arms = []
                for a in dead:
                    key, binds = self._pat_key(a["pat"])
                    arms.append((key, self.value(a["body"], depth + 1), binds))
                key, binds = self._pat_key(live[0]["pat"])
                self.bind_env(s0["pat"], self.term(live[0]["body"]))
                arms.append((key, nxt(), binds))
                return mk_case(scrut, arms, self.skips_transparent)
            return nxt()
        if k == "if" and (self._has_ret(s0) or self._is_guard(s0)):
            c = H.peel(s0["cond"], refs=False)
            blk = lambda b: self.fold(b["stmts"], b.get("tail"), nxt, depth + 1) if b.get("k") == "block" else self.stmt(b, nxt, depth + 1)
            th = blk(H.peel(s0["then"], refs=False, blocks=False))
            el = blk(H.peel(s0["else"], refs=False, blocks=False)) if "else" in s0 else nxt()
            if c.get("k") == "letexpr":
                key, binds = self._pat_key(c["pat"])
                return mk_case(self.term(c["init"]), [(key, th, binds), ("_", el, False)], self.skips_transparent)
            return mk_if(self.term(s0["cond"]), th, el)
        if k == "match" and self._has_ret(s0):
            arms = []
            for a in s0["arms"]:
                key, binds = self._pat_key(a["pat"])
                b = H.peel(a["body"], refs=False, blocks=False)
                t = self.fold(b["stmts"], b.get("tail"), nxt, depth + 1) if b.get("k") == "block" else self.stmt(b, nxt, depth + 1)
                arms.append((key, t, binds))
            return mk_case(self.term(s0["scrut"]), arms, self.skips_transparent)
        if k == "block" and self._has_ret(s0):
            return self.fold(s0["stmts"], s0.get("tail"), nxt, depth + 1)
        if k == "for" and self._has_ret(s0):
            return self._search_loop(s0, nxt, depth)
        if k == "loop" and self._has_ret(s0):
            w = self._while_index_loop(s0)
            if w is not None:
                return self._search_loop(w, nxt, depth)
        if self._has_ret(s0):
            return ("opaque", "return-inside-%s" % k)
        return nxt()

    def _search_loop(self, f, nxt, depth):
        """`for x in X { if P(x) { return R(x) } }` = first match: find / position / find_map."""
        body = H.peel(f["body"], refs=False, blocks=False)
        items = [H.peel(x, refs=False) for x in body.get("stmts", [])] + ([H.peel(body["tail"], refs=False)] if "tail" in body else [])
        items = [x for x in items if not (x.get("k") == "let" and "els" not in x and not self._has_ret(x))]
        if len(items) != 1 or items[0].get("k") != "if" or "else" in items[0] or not H.diverges(items[0]["then"]):
            return ("opaque", "loop-with-return")
        iff = items[0]
        X = f["iter_term"] if "iter_term" in f else self.term(f["iter"])
        R = self.value(iff["then"], depth + 1)
        c = H.peel(iff["cond"], refs=False)
        Yr = self._indexed_by_range(f, X)
        if Yr is None and "iter_term" in f:
            return ("opaque", "loop-with-return")
        if Yr is not None and c.get("k") != "letexpr":
            # `for i in 0..N { if P(Y[i]) { return R(i) } }` with Y an array of N elements (or `0..Y.len()`) is the loop over
            # `Y.iter().enumerate()`: i is the position, Y[i] the element
            i_t = f["index_term"] if "index_term" in f else mk_elem(X)
            cond = subst(subst(self.term(iff["cond"]), ("idx", Yr, i_t), mk_elem(Yr)), i_t, ("index", Yr))
            R2 = subst(subst(R, ("idx", Yr, i_t), mk_elem(Yr)), i_t, ("index", Yr))
            first = ("call", "position", (Yr, ("lam", cond)))
            if contains(subst(R2, ("index", Yr), ("lit", "<position>")), mk_elem(Yr)):
                return ("opaque", "search-loop-uses-element")
            return mk_case(first, [("Some", subst(R2, ("index", Yr), first), True), ("_", nxt(), False)], self.skips_transparent)
        if c.get("k") == "letexpr":
            g = self.term(c["init"])
            first = ("call", "find_map", (X, ("lam", g)))
            Rv = subst(R, g, first)
        else:
            cond = self.term(iff["cond"])
            if X[0] == "call" and X[1] == "enumerate":
                Y = X[2][0]
                first = ("call", "position", (Y, ("lam", cond)))
                Rv = subst(R, ("index", Y), first)
                if contains(subst(R, ("index", Y), ("lit", "<position>")), mk_elem(Y)):
                    return ("opaque", "search-loop-uses-element")
            else:
                first = ("call", "find", (X, ("lam", cond)))
                Rv = subst(R, mk_elem(X), first)
        return mk_case(first, [("Some", Rv, True), ("_", nxt(), False)], self.skips_transparent)

    def _while_index_loop(self, lp):
        """`let mut i = 0; while i < E { body; i += 1; }` (no `continue`, i assigned nowhere else in the loop) is `for i in 0..E { body }`:
        a for-like record with the iterator given as a term, else None."""
        body = H.peel(lp["body"], refs=False, blocks=False)
        items = list(body.get("stmts", [])) + ([body["tail"]] if "tail" in body else [])
        if len(items) != 1:
            return None
        iff = H.peel(items[0], refs=False)
        if iff.get("k") != "if" or "else" not in iff or not is_plain(iff["else"], "break"):
            return None
        c = H.peel(iff["cond"], refs=False)
        if c.get("k") != "bin" or c.get("op") != "<":
            return None
        iv = H.local_of(c["l"])
        if not iv or iv[0] not in self.mut or self.init_term(iv[0]) != ("lit", 0):
            return None
        then = H.peel(iff["then"], refs=False, blocks=False)
        if then.get("k") != "block" or "tail" in then or not then["stmts"]:
            return None
        last = H.peel(then["stmts"][-1], refs=False)
        l = H.local_of(last["l"]) if last.get("k") in ("assign", "assignop") else None
        if not l or l[0] != iv[0]:
            return None
        if last["k"] == "assignop":
            step_ok = last.get("op") in ("+=", "+") and self.term(last["r"]) == ("lit", 1)
        else:
            step_ok = self.term(last["r"]) in (("bin", "+", ("local", iv[0], iv[1]), ("lit", 1)), ("bin", "+", ("lit", 1), ("local", iv[0], iv[1])))
        if not step_ok:
            return None
        rest = {"k": "block", "stmts": then["stmts"][:-1], "sp": then.get("sp")}
        for x in H.walk(rest, into_closures=False):
            if x.get("k") == "continue":
                return None
            if x.get("k") in ("assign", "assignop"):
                r, _ = H.place_root(x["l"])
                if r and r[0] == iv[0]:
                    return None
            if x.get("k") == "ref" and x.get("mut") and H.local_of(x["e"]) and H.local_of(x["e"])[0] == iv[0]:
                return None
        X = mk_struct("Range", [("start", ("lit", 0)), ("end", self.term(c["r"]))])
        return {"k": "for", "pat": {"k": "bind", "id": iv[0], "name": iv[1]}, "iter_term": X, "index_term": ("local", iv[0], iv[1]), "body": rest}

    def _indexed_by_range(self, f, X):
        """`for i in 0..E { .. Y[i] .. }` where i is used to index exactly one collection Y whose length is E (an array `[T; E]`, or
        E = `Y.len()`): the term of Y, else None."""
        if not (X[0] == "struct" and X[1] == "Range"):
            return None
        xf = dict(X[2])
        if xf.get("start") != ("lit", 0) or "end" not in xf:
            return None
        p = f["pat"]
        while p.get("k") in ("pref", "pderef"):
            p = p["pat"]
        if p.get("k") != "bind" or "sub" in p:
            return None
        ivar = p["id"]
        bases = {}
        for n in H.walk(f["body"]):
            if n.get("k") == "index":
                l = H.local_of(n["i"])
                if l and l[0] == ivar:
                    bases[self.term(n["e"])] = n["e"]
        if len(bases) != 1:
            return None
        (Y, e), = bases.items()
        ty = (e.get("ty") or "").strip()
        while ty.startswith("&"):
            ty = ty[1:].lstrip()
            if ty.startswith("mut "):
                ty = ty[4:]
        end = xf["end"]
        if end == ("call", "len", (Y,)):
            return Y
        if ty.startswith("[") and ty.endswith("]") and "; " in ty and end[0] == "lit" and ty[:-1].rsplit("; ", 1)[1].strip() == str(end[1]):
            return Y
        return None

    def _pat_key(self, p):
        """(key, binds?) of a pattern for `case`: variant name, literal, tuple of keys, or `_`."""
        binds = bool(H.pat_bindings(p))
        while p.get("k") in ("pref", "pbox", "pderef") or (p.get("k") == "bind" and "sub" in p):
            p = p["pat"] if "pat" in p else p["sub"]
        k = p.get("k")
        if k in ("wild", "bind"):
            return "_", binds
        if k in ("ptuplestruct", "pstruct"):
            v = p["res"].get("variant") or (p["res"].get("adt") or p["res"].get("path") or "?").rsplit("::", 1)[-1]
            subs = p["pats"] if k == "ptuplestruct" else [f["pat"] for f in p["fields"]]
            inner = [self._pat_key(x)[0] for x in subs]
            if all(x == "_" for x in inner):
                if not p["res"].get("variant"):
                    return "_", binds             # a struct pattern with irrefutable fields is irrefutable
                return v, binds
            return "%s(%s)" % (v, ",".join(inner)), binds
        if k == "pexpr":
            e = p["e"]
            if e.get("variant"):
                return e["variant"], binds
            v = e.get("v") if "t" in e else e.get("value")
            return repr(v), binds
        if k == "ptuple":
            inner = [self._pat_key(x)[0] for x in p["pats"]]
            if all(x == "_" for x in inner):
                return "_", binds
            return "(%s)" % ",".join(inner), binds
        if k == "por":
            return "|".join(sorted(self._pat_key(x)[0] for x in p["pats"])), binds
        if k == "pslice":
            return "[%d%s]" % (len(p["before"]) + len(p["after"]), "+" if p.get("mid") is not None else ""), binds
        return "?" + str(k), binds


# ------------------------------------------------------------------------------------------- result of a function
def result_term(nz, body_root=None):
    """Term of the function's value.  Early returns, let-else, guards and search loops are folded into the decision
    structure (case / if / find); None only if a `return` sits in a construct the folding does not understand."""
    root = body_root if body_root is not None else nz.root
    t = nz.value(root)
    if any(x[0] == "opaque" and str(x[1]).startswith(("return-inside", "loop-with-return", "search-loop")) for x in subterms(t)):
        return None
    return t


def subst(t, old, new):
    """Replace every occurrence of sub-term `old` in t by `new` (re-applying the smart constructors is not needed for the
    shapes this is used on: projections of loop variables)."""
    if t == old:
        return new
    k = t[0] if isinstance(t, tuple) and t else None
    if k in ("f",):
        return mk_field(subst(t[1], old, new), t[2])
    if k in ("elem", "not", "neg", "lam", "cast", "ret", "repeat", "index"):
        return (k, subst(t[1], old, new)) + tuple(t[2:])
    if k == "tail":
        return ("tail", subst(t[1], old, new), t[2])
    if k == "idx":
        return ("idx", subst(t[1], old, new), subst(t[2], old, new))
    if k == "proj":
        return mk_proj(t[1], subst(t[2], old, new))
    if k == "vproj":
        return mk_vproj(t[1], t[2], subst(t[3], old, new))
    if k in ("call", "ctor"):
        return (k, t[1], tuple(subst(a, old, new) for a in t[2]))
    if k == "struct":
        return ("struct", t[1], tuple((n, subst(v, old, new)) for n, v in t[2]))
    if k in ("tuple", "array"):
        return (k, tuple(subst(a, old, new) for a in t[1]))
    if k in ("each", "orelse", "omap"):
        return (k, subst(t[1], old, new), subst(t[2], old, new))
    if k == "case":
        return ("case", subst(t[1], old, new), tuple((n, subst(v, old, new)) for n, v in t[2]))
    if k == "if":
        return ("if", subst(t[1], old, new), subst(t[2], old, new), subst(t[3], old, new))
    if k == "bin":
        return ("bin", t[1], subst(t[2], old, new), subst(t[3], old, new))
    return t


# ------------------------------------------------------------------------------------------- reference-term parser
class ParseError(Exception):
    pass


def parse(src, env=None):
    """Parse the infix notation into a term, applying the same smart constructors as the normaliser."""
    p = _Parser(src, env or {})
    t = p.expr()
    p.ws()
    if p.i != len(p.s):
        raise ParseError("trailing input at %d in %r" % (p.i, src))
    return t


class _Parser:
    def __init__(self, s, env):
        self.s = s
        self.i = 0
        self.env = env

    def ws(self):
        while self.i < len(self.s) and self.s[self.i].isspace():
            self.i += 1

    def peek(self):
        self.ws()
        return self.s[self.i] if self.i < len(self.s) else ""

    def eat(self, ch):
        self.ws()
        if not self.s.startswith(ch, self.i):
            raise ParseError("expected %r at %d in %r" % (ch, self.i, self.s))
        self.i += len(ch)

    def ident(self):
        self.ws()
        j = self.i
        while j < len(self.s):
            if self.s[j].isalnum() or self.s[j] == "_":
                j += 1
            elif self.s.startswith("::", j) and j > self.i:
                j += 2
            else:
                break
        if j == self.i:
            raise ParseError("identifier expected at %d in %r" % (self.i, self.s))
        out = self.s[self.i:j]
        self.i = j
        return out

    def args(self, close=")"):
        out = []
        if self.peek() == close:
            self.eat(close)
            return out
        while True:
            out.append(self.expr())
            if self.peek() == ",":
                self.eat(",")
                continue
            self.eat(close)
            return out

    def expr(self):
        t = self.atom()
        while True:
            c = self.peek()
            if c == ".":
                self.eat(".")
                t = mk_field(t, self.ident())
            elif c == "[":
                self.eat("[")
                i = self.expr()
                self.eat("]")
                t = ("idx", t, i)
            else:
                return t

    def atom(self):
        c = self.peek()
        if c == "$":
            self.eat("$")
            nm = self.ident()
            if nm not in self.env:
                raise ParseError("unbound spec variable $%s" % nm)
            return self.env[nm]
        if c == "(":
            self.eat("(")
            es = self.args(")")
            return es[0] if len(es) == 1 else ("tuple", tuple(es))
        if c == "#":
            self.eat("#")
            nm = self.ident()
            if self.peek() == "(":
                self.eat("(")
                a = self.args(")")
                if nm in TRANSPARENT_CTORS and len(a) == 1:
                    return a[0]
                return ("ctor", nm, tuple(a))
            return ("ctor", nm, ())
        if c == "'":
            j = self.s.index("'", self.i + 1)
            v = self.s[self.i + 1:j]
            self.i = j + 1
            return ("lit", v)
        if c == '"':
            j = self.s.index('"', self.i + 1)
            v = self.s[self.i + 1:j]
            self.i = j + 1
            return ("lit", v)
        if c.isdigit() or c == "-":
            j = self.i + 1
            while j < len(self.s) and self.s[j].isdigit():
                j += 1
            v = int(self.s[self.i:j])
            self.i = j
            return ("lit", v)
        nm = self.ident()
        c = self.peek()
        if c == "{":
            self.eat("{")
            fs = []
            while self.peek() != "}":
                f = self.ident()
                self.eat(":")
                fs.append((f, self.expr()))
                if self.peek() == ",":
                    self.eat(",")
            self.eat("}")
            return mk_struct(nm, fs)
        if c != "(":
            if nm in ("true", "false"):
                return ("lit", nm == "true")
            return ("lit", nm)          # bare word: a const-generic / named constant
        self.eat("(")
        if nm == "case":
            scrut = self.expr()
            arms = []
            while self.peek() == ",":
                self.eat(",")
                self.ws()
                j = self.s.index(":", self.i)
                key = self.s[self.i:j].strip()
                self.i = j + 1
                arms.append((key, self.expr(), True))
            self.eat(")")
            return mk_case(scrut, arms)
        a = self.args(")")
        if nm == "elem":
            return mk_elem(a[0])
        if nm == "orelse":
            return mk_orelse(a[0], a[1])
        if nm == "each":
            return mk_each(a[0], a[1])
        if nm == "omap":
            return mk_each(a[0], a[1], True)
        if nm == "proj":
            if a[0][0] == "proj" and a[0][2][0] == "lit":          # proj(Variant.0, x)
                return mk_vproj(a[0][2][1], a[0][1], a[1])
            return mk_proj(a[0][1], a[1])
        if nm == "index":
            return ("index", a[0])
        if nm == "tail":
            return ("tail", a[0], a[1][1])
        if nm == "if":
            return mk_if(a[0], a[1], a[2])
        if nm == "not":
            c, pol = canon_cond(("not", a[0]))
            return c if pol else ("not", c)
        if nm in ("neg", "lam", "cast", "repeat", "ret"):
            return (nm, a[0])
        if nm == "bin":
            return mk_bin(a[0][1], a[1], a[2])
        if nm in ("err", "unit", "diverge", "stmt"):
            return (nm,)
        return mk_call(nm, a)


# ------------------------------------------------------------------------------------------- structural diff
def diff(exp, act, path=""):
    """Parallel walk of an expected and an actual term.  Yields (path, expected_sub, actual_sub, ok) for every
    leaf position: struct fields, the receiver and body of `each`, call arguments that contain structs."""
    if exp == act:
        yield from _leaves_of(exp, act, path)
        return
    if exp[0] == act[0] == "struct" and exp[1] == act[1]:
        ef, af = dict(exp[2]), dict(act[2])
        for name in sorted(set(ef) | set(af)):
            p = "%s%s.%s" % ((path + "/") if path else "", exp[1], name)
            if name not in af:
                yield (p, ef[name], None, False)
            elif name not in ef:
                yield (p, None, af[name], False)
            else:
                yield from diff(ef[name], af[name], p)
        return
    if exp[0] == act[0] == "each":
        yield (path + "<over>", exp[1], act[1], exp[1] == act[1])
        yield from diff(exp[2], act[2], path)
        return
    if exp[0] == act[0] == "call" and exp[1] == act[1] and len(exp[2]) == len(act[2]) and _has_struct(exp):
        for i, (a, b) in enumerate(zip(exp[2], act[2])):
            if _has_struct(a):
                yield from diff(a, b, path)
            else:
                yield ("%s<%s#%d>" % (path, exp[1], i), a, b, a == b)
        return
    if exp[0] == act[0] == "tuple" and len(exp[1]) == len(act[1]) and _has_struct(exp):
        for i, (a, b) in enumerate(zip(exp[1], act[1])):
            yield from diff(a, b, "%s<%d>" % (path, i))
        return
    yield (path, exp, act, False)


def _has_struct(t):
    return any(isinstance(x, tuple) and x and x[0] == "struct" for x in subterms(t))


def _leaves_of(exp, act, path):
    """Equal terms: still enumerate the struct-field leaves so that instance counts are stable."""
    if exp[0] == "struct":
        for name, v in exp[2]:
            p = "%s%s.%s" % ((path + "/") if path else "", exp[1], name)
            yield from _leaves_of(v, v, p)
    elif exp[0] == "each" and _has_struct(exp):
        yield (path + "<over>", exp[1], exp[1], True)
        yield from _leaves_of(exp[2], exp[2], path)
    elif exp[0] in ("call",) and _has_struct(exp):
        for i, a in enumerate(exp[2]):
            if _has_struct(a):
                yield from _leaves_of(a, a, path)
            else:
                yield ("%s<%s#%d>" % (path, exp[1], i), a, a, True)
    elif exp[0] == "tuple" and _has_struct(exp):
        for i, a in enumerate(exp[1]):
            yield from _leaves_of(a, a, "%s<%d>" % (path, i))
    else:
        yield (path, exp, act, True)


# ------------------------------------------------------------------------------------------- qualified calls
def _ty_head(t):
    """head of a type string: references stripped; arrays / tuples / slices as they are; `path::Type<..>` -> `path::Type`."""
    t = (t or "").strip()
    while t.startswith("&"):
        t = t[1:].lstrip()
        if t.startswith("'"):
            t = t.split(" ", 1)[1] if " " in t else ""
        if t.startswith("mut "):
            t = t[4:]
    if t.startswith(("[", "(")):
        return t
    return t.split("<", 1)[0]


def _owner_head(c):
    """type the associated function belongs to: Self type of a trait method, impl type / path owner of an inherent one."""
    if c.get("trait"):
        return _ty_head(c.get("self_ty"))
    if c.get("impl_ty"):
        return _ty_head(c["impl_ty"])
    p = c.get("path") or ""
    if "::" not in p:
        return ""
    owner = p.rsplit("::", 1)[0]
    return _ty_head(owner.replace("::<", "<"))


def unqualified(body):
    """A copy of a body record in which the fully qualified spelling of a method call -- `Type::method(recv, a)`,
    `Trait::method(recv, a)`, `<T as Trait>::method(recv, a)` -- is the method-call node `recv.method(a)` (marked `qualified`).
    The loader does this for inherent methods of workspace types; here it is done for every associated function whose first argument
    has the type the function belongs to (then it is the receiver: IndexMap::insert(&mut m, k, v), Iterator::next(&mut it),
    Option::zip(a, b), Clone::clone(x)).  Rules that look at method calls structurally (mutations of a local, adaptor chains)
    work on the copy; the facts themselves are left untouched."""
    import copy
    if not any(n.get("k") == "call" and (n.get("callee") or {}).get("dk") == "AssocFn" and n.get("args") for n in H.walk(body["body"])):
        return body
    b2 = copy.deepcopy(body)
    for n in H.walk(b2["body"]):
        if n.get("k") != "call" or not n.get("args"):
            continue
        c = n.get("callee") or {}
        if c.get("dk") != "AssocFn":
            continue
        a0 = n["args"][0]
        own = _owner_head(c)
        if not own or own != _ty_head(a0.get("tya") or a0.get("ty")) and own != _ty_head(a0.get("ty")):
            continue
        n["k"] = "mcall"
        n["name"] = (c.get("path") or "?").rsplit("::", 1)[-1]
        n["recv"] = a0
        n["args"] = n["args"][1:]
        n["qualified"] = True
        n.pop("f", None)
    return b2


# ------------------------------------------------------------------------------------------- event helpers
def order_index(root):
    """node identity -> pre-order position (receiver before arguments, statements in order)."""
    return {id(n): i for i, n in enumerate(H.walk(root))}


def calls_named(root, *names, into_closures=True):
    return [n for n in H.walk(root, into_closures) if n.get("k") in ("call", "mcall") and Norm.call_name(n) in names]


def enclosing(root, node, kind):
    ps = H.parents_of(root, node) or []
    return [p for p in ps if p.get("k") == kind]


# ------------------------------------------------------------------------------------------- rule helpers
def build_env(params, lets=(), extra=None):
    env = {p: ("p", p) for p in params}
    env.update(extra or {})
    for name, src in lets:
        env[name] = parse(src, env)
    return env


def check_fn_result(R, rid, key, body, params, expected, lets=(), extra=None, detail=None):
    """One instance: the normal form of the function's value equals the reference term."""
    if len(body["params"]) != len(params):
        R.inst(rid, key, False, sp=body["sp"], detail="parameter list changed: expected %s" % (params,),
               got=[H.render_pat(p) for p in body["params"]])
        return None
    nz = Norm(body, params)
    act = result_term(nz)
    exp = parse(expected, build_env(params, lets, extra))
    R.inst(rid, key, act is not None and act == exp, sp=body["sp"], expect=show(exp),
           got=show(act) if act is not None else "<body with early returns>", detail=detail)
    return nz


def mutations_of(root, lid):
    """Method calls whose receiver is the local itself, and assignments into it (any projection)."""
    out = []
    for n in H.walk(root):
        k = n.get("k")
        if k == "mcall":
            loc = H.local_of(n["recv"])
            if loc and loc[0] == lid:
                out.append(n)
        elif k in ("assign", "assignop"):
            r, _ = H.place_root(n["l"])
            if r and r[0] == lid:
                out.append(n)
    return out


def cond_terms(nz, root, node):
    """Path conditions of `node` as [(kind, term, polarity)] (see hir.path_conditions)."""
    out = []
    for kind, c, extra in H.path_conditions(root, node):
        if kind == "iflet":
            out.append(("iflet", nz.term(c["init"]), extra))
        elif kind in ("if", "after-exit"):
            t, pol = canon_cond(nz.term(c))
            out.append(("if", t, extra if pol else not extra))
        elif kind == "letelse":
            out.append(("letelse", nz.term(c["init"]), True))
        elif kind == "arm":
            a = c["arms"][extra]
            out.append(("arm:" + nz._pat_key(a["pat"])[0], nz.term(c["scrut"]), True))
    return out


def path_conditions_ex(root, target):
    """`hir.path_conditions` with, for every condition, the node that owns it and the block that is left when the condition
    fails: [{"kind", "node", "extra", "owner", "exit"}] (`exit`: list of blocks, only for after-exit / let-else / diverging-arm conditions)."""
    chain = H.parents_of(root, target)
    if chain is None:
        return []
    chain = chain + [target]
    out = []
    for i, p in enumerate(chain[:-1]):
        nxt = chain[i + 1]
        k = p.get("k")
        if k == "if":
            c = H.peel(p["cond"], refs=False)
            if nxt is p["then"] or p.get("else") is nxt:
                out.append({"kind": "if", "node": p["cond"], "extra": nxt is p["then"], "owner": p, "exit": None})
        elif k == "match":
            for ai, a in enumerate(p["arms"]):
                if a["body"] is nxt or a.get("guard") is nxt:
                    out.append({"kind": "arm", "node": p, "extra": ai, "owner": p, "exit": None})
        elif k == "block":
            for st in p["stmts"]:
                if st is nxt:
                    break
                s0 = H.peel(st, refs=False)
                if s0.get("k") == "if" and "else" not in s0 and H.diverges(s0["then"]):
                    out.append({"kind": "if", "node": s0["cond"], "extra": False, "owner": s0, "exit": [s0["then"]]})
                elif s0.get("k") == "let" and "els" in s0:
                    out.append({"kind": "letelse", "node": s0, "extra": True, "owner": s0, "exit": [s0["els"]]})
                elif s0.get("k") == "let" and "init" in s0:
                    # `let x = match e { P => v, Q => <diverges> };` / `let x = if c { v } else { <diverges> };` = let-else
                    init = H.peel(s0["init"], refs=False)
                    if init.get("k") == "match":
                        live = [ai for ai, a in enumerate(init["arms"]) if not H.diverges(a["body"])]
                        dead = [a["body"] for a in init["arms"] if H.diverges(a["body"])]
                        if dead and len(live) == 1:
                            out.append({"kind": "arm", "node": init, "extra": live[0], "owner": s0, "exit": dead})
                    elif init.get("k") == "if" and "else" in init and H.diverges(init["then"]) != H.diverges(init["else"]):
                        taken = not H.diverges(init["then"])
                        out.append({"kind": "if", "node": init["cond"], "extra": taken, "owner": s0,
                                    "exit": [init["else"] if taken else init["then"]]})
    return out


_OPT_NEG = {"None": "Some", "Err": "Ok"}


def _is_cond(kind, key, t):
    """canonical `pattern matched` condition: only the positive variants Some / Ok are named (is None = is-not Some)"""
    if key in _OPT_NEG:
        return ("isnot" if kind == "is" else "is", _OPT_NEG[key], t)
    return (kind, key, t)


def cond_terms_ex(nz, root, node):
    """Path conditions of `node` in a form that does not depend on how the test is spelled:
         ("is" | "isnot", <pattern key>, <scrutinee term>)   `if let P = e` (then / else), `while let`, `let P = e else { .. }`, the arm of a
                                                            `match e`, `let x = match e { P => v, _ => <diverges> }`
         ("if", <canonical boolean term>, polarity)           `if c` (then / else), after `if c { <diverges> }`, a match guard
       -> [(cond, alts)]: `alts` = the expressions evaluated instead when the condition fails (else branch, diverging block, the other
       arms); [] when nothing is evaluated instead."""
    out = []
    for rec in path_conditions_ex(root, node):
        kind, c, extra, owner, exits = rec["kind"], rec["node"], rec["extra"], rec["owner"], rec["exit"]
        if kind == "if":
            if exits is not None:
                alts = list(exits)
            elif owner.get("k") == "if":
                alts = [owner["else"]] if (extra and "else" in owner) else ([] if extra else [owner["then"]])
            else:
                alts = []
            c0 = H.peel(c, refs=False)
            if c0.get("k") == "letexpr":
                out.append((_is_cond("is" if extra else "isnot", nz._pat_key(c0["pat"])[0], nz.term(c0["init"])), alts))
            else:
                t, pol = canon_cond(nz.term(c))
                out.append((("if", t, extra if pol else not extra), alts))
        elif kind == "letelse":
            out.append((_is_cond("is", nz._pat_key(c["pat"])[0], nz.term(c["init"])), list(exits or [])))
        elif kind == "arm":
            arms = c["arms"]
            a = arms[extra]
            key = nz._pat_key(a["pat"])[0]
            scrut = nz.term(c["scrut"])
            alts = [x["body"] for i, x in enumerate(arms) if i != extra]
            earlier = [nz._pat_key(x["pat"])[0] for x in arms[:extra] if "guard" not in x]
            if key == "_" and len(earlier) == 1 and extra == 1 and earlier[0] in ("Some", "None", "Ok", "Err"):
                out.append((_is_cond("isnot", earlier[0], scrut), alts))          # `Some(x) => .., _ => HERE`
            else:
                out.append((_is_cond("is", key, scrut), alts))
            if "guard" in a:
                t, pol = canon_cond(nz.term(a["guard"]))
                out.append((("if", t, pol), alts))
    return out


def show_conds_ex(cs):
    return ["%s %s" % (c[0], show(c[1])) if c[0] == "if" and c[2] else ("not %s" % show(c[1]) if c[0] == "if" else "%s %s %s" % (show(c[2]), c[0], c[1]))
            for c in cs]


def is_plain(n, kind):
    """n is `break` / `continue` (no label, no value), possibly wrapped in a block / `;`"""
    n = H.peel(n, refs=False)
    while n.get("k") == "block" and len(n["stmts"]) == 1 and "tail" not in n:
        n = H.peel(n["stmts"][0], refs=False)
    return n.get("k") == kind and "e" not in n and "label" not in n


def exclusive_branches(root, a, b):
    """a and b sit in different branches of the same `if` / different arms of the same `match` (never both evaluated in one pass)."""
    ca, cb = H.parents_of(root, a), H.parents_of(root, b)
    if ca is None or cb is None:
        return False
    ca, cb = ca + [a], cb + [b]
    i = 0
    while i < min(len(ca), len(cb)) and ca[i] is cb[i]:
        i += 1
    if i == 0 or i >= len(ca) or i >= len(cb):
        return False
    lca, na, nb = ca[i - 1], ca[i], cb[i]
    if lca.get("k") == "if":
        br = [lca["then"]] + ([lca["else"]] if "else" in lca else [])
        return any(na is x for x in br) and any(nb is x for x in br)
    if lca.get("k") == "match":
        bodies = [arm["body"] for arm in lca["arms"]]
        return any(na is x for x in bodies) and any(nb is x for x in bodies)
    return False


def show_conds(cs):
    return ["%s%s %s" % ("" if pol else "!", kind, show(t)) for kind, t, pol in cs]


# ------------------------------------------------------------------------------------------- A4: expected rebuild term
def type_paths(tree, out=None):
    """All ADT paths mentioned in a type tree."""
    if out is None:
        out = []
    if isinstance(tree, dict):
        if tree.get("t") == "adt":
            out.append(tree["path"])
        for a in tree.get("args", []) or []:
            type_paths(a, out)
        for key in ("elem", "inner"):
            if isinstance(tree.get(key), dict):
                type_paths(tree[key], out)
    return out


def gen_rebuild(crate, adt_path, src, cfg, env, seen=()):
    """Reference term for `rebuild a node of type adt_path from the same-typed node `src``:
         every field is the same-named field of `src`, except
         * cfg["transforms"][<type path>]  — term template over $x (the source field),
         * cfg["rebuild"]["Struct.field"]  — child container rebuilt: template over $x and $child, where $child is the
           rebuild of the container's node type from cfg["rebuild_elem"]["Struct.field"] (template over $x),
         * a field whose type is a struct of cfg["recurse"] is rebuilt field by field (same rules).
    """
    adt = crate.adts.get(adt_path)
    if adt is None or adt.get("kind") != "struct" or adt_path in seen:
        raise KeyError("no struct %s in the ADT table" % adt_path)
    sname = adt_path.rsplit("::", 1)[-1]
    fields = []
    for f in adt["variants"][0]["fields"]:
        x = mk_field(src, f["name"])
        key = "%s.%s" % (sname, f["name"])
        tree = f.get("tree") or {}
        tpath = tree.get("path") if tree.get("t") == "adt" else None
        e2 = dict(env)
        e2["x"] = x
        if key in cfg.get("rebuild", {}):
            node_ty = cfg["rebuild_node"][key]
            elem = parse(cfg["rebuild_elem"][key], e2)
            e2["child"] = gen_rebuild(crate, node_ty, elem, cfg, env, seen + (adt_path,))
            fields.append((f["name"], parse(cfg["rebuild"][key], e2)))
        elif tpath in cfg.get("transforms", {}):
            fields.append((f["name"], parse(cfg["transforms"][tpath], e2)))
        elif tpath in cfg.get("recurse", []):
            fields.append((f["name"], gen_rebuild(crate, tpath, x, cfg, env, seen + (adt_path,))))
        else:
            fields.append((f["name"], x))
    return mk_struct(sname, fields)


def last_component(path):
    """`A.b/C.d<over>` -> `C.d<over>`"""
    return path.rsplit("/", 1)[-1]


def is_tried(root, node):
    """The failure (Err / None) of `node` leaves the function as an error, however that is spelled:
         * `node?` (through refs, parentheses, and `.context(..)` / `.with_context(..)` / `.map_err(..)`, which only decorate the error);
         * `match node { Ok(v) => .., Err(e) => return Err(e) }`, `let Ok(v) = node else { bail!(..) }`, `if let Ok(v) = node { .. } else { bail!(..) }`:
           every arm that is not an Ok / Some arm is an error exit (or, when the match is the function's value, an `Err(..)` value);
         * `let r = node;` with r used exactly once, in one of these positions."""
    return _is_tried(root, node, 0)


def _is_tried(root, node, depth):
    ps = H.parents_of(root, node) or []
    cur = node
    for p in reversed(ps):
        k = p.get("k")
        if k == "try":
            return True
        if k == "ref" or (k == "block" and not p["stmts"] and p.get("tail") is cur) or (k == "un" and p.get("op") == "deref"):
            cur = p
            continue
        if k == "mcall" and p["recv"] is cur and p["name"] in ("context", "with_context", "map_err"):
            cur = p
            continue
        if k == "match" and p["scrut"] is cur:
            fails = [a for a in p["arms"] if not _success_pat(a["pat"])]
            in_tail = id(p) in H.tail_nodes(root)
            return bool(fails) and all(H.is_err_exit(a["body"]) or (in_tail and "guard" not in a and _is_err_value(a["body"])) for a in fails)
        if k == "letexpr" and p["init"] is cur:
            owner = [x for x in H.walk(root) if x.get("k") == "if" and H.peel(x["cond"], refs=False) is p]
            return (len(owner) == 1 and _success_pat(p["pat"]) and "else" in owner[0] and H.is_err_exit(owner[0]["else"]))
        if k == "let" and p.get("init") is cur:
            if "els" in p:
                return _success_pat(p["pat"]) and H.is_err_exit(p["els"])
            pat = p["pat"]
            if pat.get("k") == "bind" and "sub" not in pat and depth < 3:
                uses = [x for x in H.walk(root) if x.get("k") == "path" and x["res"].get("r") == "local" and x["res"].get("id") == pat["id"]]
                return len(uses) == 1 and _is_tried(root, uses[0], depth + 1)
            return False
        return False
    return False


def _success_pat(p):
    """the pattern selects the Ok / Some side (`Ok(x)`, `Some(x)`, `Ok(Some(x))`, `Ok(None)`)"""
    v = H.pat_variant(p)
    return bool(v) and v[1] in ("Ok", "Some")


def _is_err_value(e):
    e = H.peel(e, refs=False)
    c = H.ctor_of(e) if e.get("k") == "call" else None
    return bool(c) and c[1] == "Err"


def to_formula(t, B):
    """A boolean term -> lib.boolform formula with the rendered leaf terms as atoms."""
    if t[0] == "bin" and t[1] in ("&&", "||"):
        return ("and" if t[1] == "&&" else "or", to_formula(t[2], B), to_formula(t[3], B))
    if t[0] == "not":
        return ("not", to_formula(t[1], B))
    if t[0] == "lit" and isinstance(t[1], bool):
        return ("const", t[1])
    return ("atom", show(t))


def cond(kind, t, pol=True):
    """A reference path condition in the canonical form `cond_terms` produces."""
    if kind == "if":
        t, p = canon_cond(t)
        return ("if", t, pol if p else not pol)
    return (kind, t, pol)


def holds_at(conds, t, pol=True):
    """The (canonicalised) boolean t is known to have value `pol` under the path conditions."""
    t, p = canon_cond(t)
    want = pol if p else not pol
    return any(kind == "if" and c == t and cp == want for kind, c, cp in conds)


def table_entries(R, rid, what, b, nz, t):
    """Entries put into a freshly built table, whatever the construction:
         * a mutable local, created empty, with exactly one `insert(k, v)` (any other mutation is unrecognised);
         * `<iterator of (k, v)>.collect()` / `from_iter`.
       -> [(key term, value term, span)] or None (anchor failure reported)."""
    if t and t[0] == "local":
        lid = t[1]
        muts = mutations_of(b["body"], lid)
        ins = [m for m in muts if m.get("k") == "mcall" and m["name"] == "insert"]
        other = [m for m in muts if m not in ins and not (m.get("k") == "mcall" and m["name"] in ("len", "is_empty"))]
        for m in other:
            R.unrecognised(rid, what, "mutation of the table other than one insert: %s" % H.render(m), m.get("sp"))
        if len(ins) != 1:
            R.inst(rid, "%s:single-insert" % what, False, sp=b["sp"], expect="exactly one insert", got=len(ins))
            return None
        init = nz.init_term(lid)
        R.inst(rid, "%s:starts-empty" % what, init in (("call", "IndexMap::new", ()), ("call", "IndexMap::default", ())) or
               (bool(init) and init[0] == "call" and init[1] == "IndexMap::with_capacity"), sp=b["sp"], expect="IndexMap::new()",
               got=show(init) if init else None)
        return [(nz.term(ins[0]["args"][0]), nz.term(ins[0]["args"][1]), ins[0]["sp"])]
    if t and t[0] == "call" and t[1] in ("collect", "from_iter") and len(t[2]) == 1:
        e = mk_elem(t[2][0])
        if e[0] == "tuple" and len(e[1]) == 2:
            R.inst(rid, "%s:starts-empty" % what, True, sp=b["sp"], nontrivial=False, detail="collected into a fresh table")
            return [(e[1][0], e[1][1], b["sp"])]
    R.anchor(rid, "%s is a table built by one insert per entry or by collect()" % what, False, b["sp"])
    return None


def local_callees(crate, root):
    """{callee key: (name, body record)} for calls (fn or method) into functions of the same crate."""
    out = {}
    for n in H.walk(root):
        if n.get("k") in ("call", "mcall"):
            c = n.get("callee") or {}
            for key in (c.get("inst_key"), c.get("key")):
                if key and key in crate.by_key:
                    out[key] = (Norm.call_name(n), crate.by_key[key])
                    break
    return out
