"""C12 helpers.

(a) token flow of a line tokeniser: from the `split` of the row text to the `fields` of the line record, which adaptors and
    consumers touch the sequence of pieces (R12.6);
(b) stage model of a directory walk: builder options, iterator adaptors and the terminal loop between `WalkDir::new(root)` and the
    call that reads a file, with the condition under which an entry reaches that call as a boolean formula (R12.7).

Everything is read off the typed HIR (resolved callees, types of receivers); nothing is compared as text.
"""
from lib import hir as H
from lib import boolform as B


def parent_map(root):
    out = {}
    for n, ps in H.walk_with_parents(root):
        out[id(n)] = ps[-1] if ps else None
    return out


def uses_of(root, local_id):
    return [n for n in H.walk(root) if n.get("k") == "path" and n["res"].get("r") == "local" and n["res"]["id"] == local_id]


def ty_of(n):
    n = H.peel(n)
    return n.get("ty") or ""


def bare(ty):
    ty = ty or ""
    while ty.startswith("&"):
        ty = ty[1:].lstrip()
        if ty.startswith("mut "):
            ty = ty[4:]
        if ty.startswith("'"):
            ty = ty.split(" ", 1)[1] if " " in ty else ty
    return ty


# ------------------------------------------------------------------------------------------------ (a) token flow
# conversions of one piece that keep its text
IDENT_CONV = {"to_owned", "to_string", "into", "clone", "from", "to_str", "as_str", "as_ref", "borrow", "deref"}
# adaptors / conversions that keep every element of a sequence, in order
SEQ_KEEP = {"collect", "into_iter", "iter", "peekable", "fuse", "cloned", "copied", "to_vec", "to_owned", "clone", "into",
            "as_slice", "as_ref", "into_boxed_slice", "into_vec", "from_iter", "from"}
# consumers that do not change a sequence held in a local
SEQ_READONLY = {"len", "is_empty", "first", "last", "peek", "get", "iter", "as_slice", "clone", "size_hint", "contains", "to_vec",
                "capacity", "join", "concat"}
# splitters of a string other than `split(pattern)`: they do not yield one piece per separator occurrence
STR_SPLITTERS = {"split", "split_whitespace", "split_ascii_whitespace", "split_terminator", "rsplit", "rsplit_terminator", "splitn",
                 "rsplitn", "split_inclusive", "lines", "matches", "split_once", "rsplit_once"}
OPTION_UNWRAPS = {"with_context", "context", "ok_or", "ok_or_else", "unwrap", "expect", "unwrap_or_default"}


def is_identity_conv(arg):
    """`|x| x.to_owned()`, `str::to_owned`, `String::from`, `|x| x` ...: a per-piece conversion that keeps the text."""
    a = H.peel(arg)
    if a.get("k") == "path" and a["res"].get("r") == "def":
        return (a["res"].get("path") or "").rsplit("::", 1)[-1] in IDENT_CONV
    if a.get("k") == "closure":
        pids = [i for p in a["params"] for (i, _) in H.pat_bindings(p)]
        b = H.peel(a["body"])
        for _ in range(8):
            if b.get("k") == "mcall" and b["name"] in IDENT_CONV and not b["args"]:
                b = H.peel(b["recv"])
            elif b.get("k") == "call" and H.callee_name(b) in IDENT_CONV and len(b.get("args", [])) == 1:
                b = H.peel(b["args"][0])
            else:
                break
        loc = H.local_of(b)
        return len(pids) == 1 and loc is not None and loc[0] == pids[0]
    return False


def _op(name, cls, node, why=None, n=0):
    return {"name": name, "cls": cls, "node": node, "why": why, "n": n}


def token_ops(root, e, depth=0, _skip=None):
    """What happens to the pieces of a split string on their way into `e`, source first.
    cls: source | keep | front (removes n leading pieces) | lossy (may drop / rewrite / reorder pieces) | unknown."""
    e = H.peel(e, tries=True)
    k = e.get("k")
    if depth > 14:
        return [_op("?", "unknown", e, "expression too deep")]
    if k == "mcall":
        name = e["name"]
        rty = bare(ty_of(e["recv"]))
        if name in STR_SPLITTERS and rty in ("str", "alloc::string::String", "std::string::String"):
            if name == "split" and len(e["args"]) == 1:
                return [_op(name, "source", e)]
            return [_op(name, "lossy", e, "`%s` does not yield exactly one piece between every two separators" % name)]
        inner = token_ops(root, e["recv"], depth + 1)
        if name in OPTION_UNWRAPS:
            return inner
        if name in SEQ_KEEP and not e["args"]:
            return inner + [_op(name, "keep", e)]
        if name == "map" and len(e["args"]) == 1:
            if is_identity_conv(e["args"][0]):
                return inner + [_op(name, "keep", e)]
            return inner + [_op(name, "lossy", e, "pieces rewritten by %s" % H.render(e["args"][0])[:60])]
        if name == "skip" and len(e["args"]) == 1 and isinstance(H.const_value(e["args"][0]), int):
            return inner + [_op(name, "front", e, n=H.const_value(e["args"][0]))]
        return inner + [_op(name, "lossy", e, "`%s` is not an element-preserving adaptor" % name)]
    if k == "call":
        name = H.callee_name(e)
        if name in SEQ_KEEP and len(e.get("args", [])) == 1:
            return token_ops(root, e["args"][0], depth + 1) + [_op(name, "keep", e)]
        return [_op(name or "?", "unknown", e, "sequence produced by a call that is not modelled")]
    loc = H.local_of(e)
    if loc is not None:
        init = H.let_init_of(root, loc[0])
        if init is None:
            return [_op(loc[1], "unknown", e, "local `%s` is not bound by a plain `let`" % loc[1])]
        ops = token_ops(root, init, depth + 1)
        pm = parent_map(root)
        here = H.peel(e)
        for u in uses_of(root, loc[0]):
            if u is here:
                continue
            cur, p = u, pm.get(id(u))
            shared = False
            while p is not None and (p.get("k") == "ref" or (p.get("k") == "un" and p.get("op") == "deref")):
                shared = shared or (p.get("k") == "ref" and not p.get("mut"))
                cur, p = p, pm.get(id(p))
            if shared and not (p is not None and p.get("k") == "mcall" and p["recv"] is cur):
                continue                # `&seq` handed to something (a log line, a length check): cannot change the sequence
            if p is not None and p.get("k") == "mcall" and p["recv"] is cur:
                nm = p["name"]
                if nm in ("next", "pop_front") and not p["args"]:
                    ops.append(_op(nm, "front", p, n=1))
                elif nm == "remove" and len(p["args"]) == 1 and H.const_value(p["args"][0]) == 0:
                    ops.append(_op(nm, "front", p, n=1))
                elif nm in SEQ_READONLY:
                    continue
                elif nm in SEQ_KEEP and not p["args"]:
                    continue            # another copy of the sequence; the one we follow is `e`
                else:
                    ops.append(_op(nm, "lossy", p, "`%s.%s(..)` changes the sequence of pieces" % (loc[1], nm)))
            else:
                ops.append(_op(loc[1], "unknown", u, "`%s` used other than as a method receiver" % loc[1]))
        return ops
    return [_op("?", "unknown", e, "not a method chain over a split: %s" % H.render(e)[:60])]


def first_piece_origin(root, e):
    """Follow a value back to the consumer call (`next()`, `remove(0)`) that took it off the front of a sequence."""
    for _ in range(16):
        e = H.peel(e, tries=True)
        k = e.get("k")
        if k == "mcall":
            nm = e["name"]
            if nm in ("next", "pop_front") and not e["args"]:
                return e
            if nm == "remove" and len(e["args"]) == 1 and H.const_value(e["args"][0]) == 0:
                return e
            if nm in OPTION_UNWRAPS or (nm in IDENT_CONV and not e["args"]) or (nm == "map" and len(e["args"]) == 1 and is_identity_conv(e["args"][0])):
                e = e["recv"]
                continue
            return None
        if k == "call" and H.callee_name(e) in IDENT_CONV and len(e.get("args", [])) == 1:
            e = e["args"][0]
            continue
        loc = H.local_of(e)
        if loc is not None:
            init = H.let_init_of(root, loc[0])
            if init is None:
                return None
            e = init
            continue
        return None
    return None


def raw_text_arg(e):
    """Is `e` a local (closure parameter, pattern binding, `let`) handed on without a text-changing call?  -> (ok, calls seen)"""
    calls = []
    for _ in range(10):
        e = H.peel(e, tries=True)
        if e.get("k") == "mcall":
            calls.append(e["name"])
            e = e["recv"]
            continue
        break
    bad = [c for c in calls if c not in IDENT_CONV]
    return (H.local_of(e) is not None and not bad), calls


# ------------------------------------------------------------------------------------------------ (b) directory walk
WALK_BUILDER_OK = {"sort_by_file_name", "sort_by", "sort_by_key", "follow_links", "follow_root_links", "max_open", "contents_first"}
ITER_PASS = {"into_iter", "iter", "map", "inspect", "peekable", "fuse", "collect", "?"}
ITER_TERMINAL = {"try_fold", "try_for_each", "for_each", "fold"}
PATH_CONV = {"as_ref", "as_path", "to_path_buf", "to_owned", "clone", "into", "borrow", "as_os_str"}


def climb(root, start):
    """Stages applied to the value of `start`, innermost first: [(name, node)], and how the chain ends:
    ("for", node) | ("end", parent, last) | ("multi-use", let)."""
    pm = parent_map(root)
    stages, cur, term = [], start, None
    for _ in range(80):
        p = pm.get(id(cur))
        if p is None:
            term = ("end", None, cur)
            break
        k = p.get("k")
        if k in ("ref", "semi", "cast") or (k == "un" and p.get("op") == "deref") or \
                (k == "block" and not p["stmts"] and p.get("tail") is cur):
            cur = p
            continue
        if k == "try":
            stages.append(("?", p))
            cur = p
            continue
        if k == "mcall" and p["recv"] is cur:
            stages.append((p["name"], p))
            cur = p
            continue
        if k == "call" and H.callee_name(p) == "into_iter" and p.get("args") and p["args"][0] is cur:
            stages.append(("into_iter", p))
            cur = p
            continue
        if k == "for" and p["iter"] is cur:
            term = ("for", p)
            break
        if k == "let" and p.get("init") is cur and p["pat"].get("k") == "bind" and "els" not in p:
            us = uses_of(root, p["pat"]["id"])
            if len(us) == 1:
                cur = us[0]
                continue
            term = ("multi-use", p)
            break
        term = ("end", p, cur)
        break
    return stages, term


def _has_ret(n):
    return any(x.get("k") == "ret" for x in H.walk(n))


class WalkModel:
    """Atoms: `is_dir` (the entry is a directory), `ext` (its extension equals the mapping extension), `entry-ok` (the walk
    produced the entry without an I/O error; fixed to true when formulas are compared).  Everything else stays an opaque atom named
    by its rendered text, so a formula that depends on it can never equal the reference."""

    def __init__(self, crate, ext_value):
        self.q = crate
        self.ext = ext_value
        self.depth = 0

    # ---- leaves
    def _mentions_ext_const(self, n):
        for x in H.walk(n):
            if H.const_value(x) == self.ext and isinstance(H.const_value(x), str):
                return True
        return False

    def _ext_closure(self, cl):
        cl = H.peel(cl)
        if cl.get("k") != "closure":
            return False
        pids = [i for p in cl["params"] for (i, _) in H.pat_bindings(p)]
        b = H.peel(cl["body"], refs=False)
        if b.get("k") != "bin" or b["op"] != "==":
            return False
        for x, y in ((b["l"], b["r"]), (b["r"], b["l"])):
            r = H.recv_root(x)
            if r and r[0] in pids and self._mentions_ext_const(y) and not any(z.get("k") == "path" and z["res"].get("r") == "local" for z in H.walk(y)):
                return True
        return False

    def _is_extension_of_entry(self, n):
        n = H.peel(n)
        return n.get("k") == "mcall" and n["name"] == "extension" and not n["args"] and H.recv_root(n["recv"]) is not None

    def atom(self, n):
        n = H.peel(n, refs=False)
        k = n.get("k")
        if k == "mcall":
            nm, args = n["name"], n["args"]
            rty = bare(ty_of(n["recv"]))
            if nm == "is_dir" and not args:
                return "is_dir"
            if nm == "is_file" and not args:
                return ("not", ("atom", "is_dir"))
            if nm == "is_ok" and not args and rty.startswith("core::result::Result"):
                return "entry-ok"
            if nm == "is_err" and not args and rty.startswith("core::result::Result"):
                return ("not", ("atom", "entry-ok"))
            if nm in ("is_some_and", "is_ok_and") and len(args) == 1:
                if self._is_extension_of_entry(n["recv"]):
                    return "ext" if self._ext_closure(args[0]) else None
                cl = H.peel(args[0])
                if rty.startswith("core::result::Result") and cl.get("k") == "closure":
                    return ("and", ("atom", "entry-ok"), B.formula(cl["body"], self.atom))
            if nm == "map_or" and len(args) == 2 and isinstance(H.const_value(args[0]), bool):
                d = H.const_value(args[0])
                if self._is_extension_of_entry(n["recv"]):
                    return "ext" if (d is False and self._ext_closure(args[1])) else None
                cl = H.peel(args[1])
                if rty.startswith("core::result::Result") and cl.get("k") == "closure":
                    return ("ite", ("atom", "entry-ok"), B.formula(cl["body"], self.atom), ("const", d))
        if k == "bin" and n["op"] in ("==", "!="):
            for x, y in ((n["l"], n["r"]), (n["r"], n["l"])):
                if self._is_extension_of_entry(x):
                    c = H.ctor_of(H.peel(y))
                    if c and c[1] == "Some" and self._mentions_ext_const(y) and \
                            not any(z.get("k") == "path" and z["res"].get("r") == "local" for z in H.walk(y)):
                        return "ext" if n["op"] == "==" else ("not", ("atom", "ext"))
        if k == "call":
            key = (n.get("callee") or {}).get("key")
            b = self.q.by_key.get(key)
            if b is not None and b.get("output") == "bool" and self.depth < 3 and not _has_ret(b["body"]):
                self.depth += 1
                try:
                    return B.formula(b["body"], self.atom)
                finally:
                    self.depth -= 1
        return None

    def F(self, n):
        return B.formula(n, self.atom)

    @staticmethod
    def opaque(n, what=""):
        return ("atom", "?" + what + H.render(n)[:70])

    def pat_cond(self, pat):
        """Condition under which a pattern on the walk result matches."""
        v = H.pat_variant(pat)
        if v and v[1] == "Ok":
            return ("atom", "entry-ok")
        if v and v[1] == "Err":
            return ("not", ("atom", "entry-ok"))
        p = H.pat_peel(pat)
        if p.get("k") in ("wild", "bind"):
            return ("const", True)
        return ("atom", "?pattern " + H.render_pat(pat)[:40])

    def ok_of(self, n):
        """`n` (a Result / Option about the entry) is Ok / Some."""
        n0 = H.peel(n)
        while n0.get("k") == "mcall" and n0["name"] in ("as_ref", "as_mut", "as_deref"):
            n0 = H.peel(n0["recv"])
        t = bare(n0.get("ty") or "")
        if t.startswith("core::result::Result"):
            return ("atom", "entry-ok")
        return self.Y(n0)

    # ---- "the expression keeps the entry" (is Some / Ok(Some) / an error that is handed on)
    def Y(self, e, root=None, depth=0):
        e = H.peel(e, refs=False)
        k = e.get("k")
        if depth > 12:
            return self.opaque(e)
        if k == "if" and "else" in e:
            c = H.peel(e["cond"], refs=False)
            cf = self.pat_cond(c["pat"]) if c.get("k") == "letexpr" else self.F(e["cond"])
            return ("ite", cf, self.Y(e["then"], root, depth + 1), self.Y(e["else"], root, depth + 1))
        if k == "block":
            if "tail" in e and all(s.get("k") == "let" and "els" not in s for s in e["stmts"]) and not _has_ret(e):
                return self.Y(e["tail"], e, depth + 1)
            return self.opaque(e)
        if k == "match":
            f = ("const", False)
            for a in reversed(e["arms"]):
                c = self.pat_cond(a["pat"])
                if a.get("guard") is not None:
                    c = ("and", c, self.F(a["guard"]))
                f = ("ite", c, self.Y(a["body"], root, depth + 1), f)
            return f
        c = H.ctor_of(e)
        if c:
            if c[1] == "None":
                return ("const", False)
            if c[1] in ("Some", "Err"):
                return ("const", True)
            if c[1] == "Ok" and e.get("k") == "call" and e.get("args"):
                inner = H.peel(e["args"][0])
                ic = H.ctor_of(inner)
                t = inner.get("ty") or ""
                if ic or t.startswith("core::option::Option"):
                    return self.Y(inner, root, depth + 1)
                return ("const", True)
        if k == "mcall":
            nm, args = e["name"], e["args"]
            rty = bare(ty_of(e["recv"]))
            if nm == "transpose" and not args:
                return self.Y(e["recv"], root, depth + 1)
            if nm in ("then", "then_some") and len(args) == 1 and rty == "bool":
                return self.F(e["recv"])
            if nm == "ok" and not args:
                return self.ok_of(e["recv"])
            cl = H.peel(args[0]) if len(args) == 1 else {}
            if cl.get("k") == "closure":
                if rty.startswith("core::result::Result"):
                    if nm == "map":
                        t = e.get("ty") or ""
                        if "core::option::Option" in t.split(",")[0]:
                            return ("ite", self.ok_of(e["recv"]), self.Y(cl["body"], root, depth + 1), ("const", True))
                        return ("const", True)
                    if nm == "and_then":
                        return ("ite", self.ok_of(e["recv"]), self.Y(cl["body"], root, depth + 1), ("const", True))
                if rty.startswith("core::option::Option"):
                    if nm == "map":
                        return self.Y(e["recv"], root, depth + 1)
                    if nm == "and_then":
                        return ("and", self.Y(e["recv"], root, depth + 1), self.Y(cl["body"], root, depth + 1))
                    if nm == "filter":
                        return ("and", self.Y(e["recv"], root, depth + 1), self.F(cl["body"]))
            return self.opaque(e)
        loc = H.local_of(e)
        if loc is not None and root is not None:
            init = H.let_init_of(root, loc[0])
            if init is not None:
                return self.Y(init, root, depth + 1)
        return self.opaque(e)

    def reach(self, scope, target):
        """Conjunction of the conditions under which `target` is evaluated inside `scope`."""
        out = []
        for kind, node, x in H.path_conditions(scope, target):
            if kind in ("if", "after-exit"):
                f = self.F(node)
                out.append(f if x else ("not", f))
            elif kind == "iflet":
                f = self.pat_cond(node["pat"])
                out.append(f if x else ("not", f))
            elif kind == "letelse":
                out.append(self.pat_cond(node["pat"]))
            elif kind == "arm":
                a = node["arms"][x]
                f = self.pat_cond(a["pat"])
                if a.get("guard") is not None:
                    f = ("and", f, self.F(a["guard"]))
                out.append(f)
        return out


def conj(fs):
    f = ("const", True)
    for x in fs:
        f = x if f == ("const", True) else ("and", f, x)
    return f


def entry_constraint(env):
    return env.get("entry-ok", True) is True


def implies(f, g, constraints=None):
    """(f => g for every assignment?, counterexample)"""
    return B.equivalent(("or", ("not", f), g), ("const", True), constraints)


# ------------------------------------------------------------------------------------------------ (c) private helpers
def crate_calls(q, body_root):
    """[(call node, callee body)] for every call in `body_root` of a function defined in the crate (free fn or method)."""
    out = []
    for n in H.walk(body_root):
        if n.get("k") in ("call", "mcall"):
            c = n.get("callee") or {}
            b = q.by_key.get(c.get("inst_key") or c.get("key")) or q.by_key.get(c.get("key"))
            if b is not None:
                out.append((n, b))
    return out


def with_helpers(q, body, depth=2, skip=()):
    """The function and the functions of the crate it calls (transitively up to `depth`): [(body, call node in the caller | None,
    caller body | None)], the function itself first.  `skip`: keys not to enter."""
    out, seen = [(body, None, None)], {body["key"]} | set(skip)
    frontier = [body]
    for _ in range(depth):
        nxt = []
        for b in frontier:
            for call, cb in crate_calls(q, b["body"]):
                if cb["key"] in seen:
                    continue
                seen.add(cb["key"])
                out.append((cb, call, b))
                nxt.append(cb)
        frontier = nxt
    return out


def returned_exprs(body):
    """Value expressions a function returns normally: the tail and every `return e` that is not an error exit, with Ok(..) /
    Some(..) wrappers removed.  None if there is no tail."""
    root = body["body"]
    outs = []
    t = H.peel(root, refs=False)
    if t.get("k") == "block":
        if "tail" not in t:
            return None
        t = t["tail"]
    outs.append(t)
    for n in H.walk(root, into_closures=False):
        if n.get("k") == "ret" and "e" in n and not H.is_err_exit(n):
            outs.append(n["e"])
    res = []
    for e in outs:
        e = H.peel(e)
        c = H.ctor_of(e)
        if c and c[1] in ("Ok", "Some") and e.get("k") == "call" and e.get("args"):
            e = H.peel(e["args"][0])
        res.append(e)
    return res


def built_where(q, body, e, depth=0):
    """Follow a value (a path handed to File::create) back to the local it is built in, through `let` aliases, `?` and calls of
    crate functions that return it: (body that owns the local, local id, [(call node, caller body)] followed) or None."""
    if depth > 6:
        return None
    root = body["body"]
    e = H.peel(e, tries=True)
    loc = H.local_of(e)
    if loc is None:
        return None
    init = H.let_init_of(root, loc[0])
    if init is None:
        return (body, loc[0], [])
    i = H.peel(init, tries=True)
    # conversions that keep the path
    while i.get("k") == "mcall" and i["name"] in PATH_CONV and not i["args"]:
        i = H.peel(i["recv"], tries=True)
    if H.local_of(i) is not None:
        return built_where(q, body, i, depth + 1)
    if i.get("k") in ("call", "mcall"):
        c = i.get("callee") or {}
        cb = q.by_key.get(c.get("inst_key") or c.get("key")) or q.by_key.get(c.get("key"))
        if cb is not None:
            rets = returned_exprs(cb)
            if rets and len(rets) == 1:
                r = built_where(q, cb, rets[0], depth + 1)
                if r is not None:
                    return (r[0], r[1], r[2] + [(i, body)])
            return None
    return (body, loc[0], [])


def call_args_positional(call):
    """Arguments of a call in parameter order (receiver first for a method call)."""
    return H.call_args(call)
