"""Fact extraction (rustc_private driver under cargo) with a content-addressed cache.

The deciding step never executes code of the repository: `cargo +nightly check` type-checks
it with the driver as RUSTC_WORKSPACE_WRAPPER; the driver dumps typed HIR, ADT/impl/const
tables, macro token trees, FormatArgs templates and (for the harness crate) the
monomorphic instance graph + MIR as JSON.
"""
import fcntl
import hashlib
import json
import os
import shutil
import subprocess
import sys
import tempfile
import time

VERIF = os.path.dirname(os.path.dirname(os.path.abspath(__file__)))
DRIVER_DIR = os.path.join(VERIF, "driver")
DRIVER_BIN = os.path.join(DRIVER_DIR, "target", "release", "fbr-facts")
ENTRIES_DIR = os.path.join(VERIF, "entries")
CACHE_DIR = os.path.join(VERIF, ".cache")

WORKSPACE_CRATES = [
    "duke", "duke_macros", "dukebox", "dukenest", "maven_dependency_resolver",
    "quill", "raw_class_file", "feather_build_rs",
]


def _iter_repo_files(repo):
    for root, dirs, files in os.walk(repo):
        rel = os.path.relpath(root, repo)
        if rel == ".":
            dirs[:] = [d for d in dirs if d not in ("target", ".git")]
        dirs.sort()
        for f in sorted(files):
            yield os.path.join(root, f)


def tree_hash(repo, all_targets=False):
    h = hashlib.sha256()
    h.update(b"v3\0")
    h.update(b"all-targets\0" if all_targets else b"lib-bin\0")
    for p in _iter_repo_files(repo):
        try:
            with open(p, "rb") as f:
                data = f.read()
        except OSError:
            continue
        h.update(os.path.relpath(p, repo).encode())
        h.update(b"\0")
        h.update(hashlib.sha256(data).digest())
    # the extractor itself is part of the key
    for d in (os.path.join(DRIVER_DIR, "src"), os.path.join(ENTRIES_DIR, "src")):
        for root, _, files in sorted(os.walk(d)):
            for f in sorted(files):
                with open(os.path.join(root, f), "rb") as fh:
                    h.update(hashlib.sha256(fh.read()).digest())
    return h.hexdigest()[:32]


def sysroot():
    return subprocess.check_output(["rustc", "+nightly", "--print", "sysroot"], text=True).strip()


def build_driver(log=sys.stderr):
    """Build the driver if the binary is missing or older than its sources."""
    newest = 0
    for root, _, files in os.walk(os.path.join(DRIVER_DIR, "src")):
        for f in files:
            newest = max(newest, os.path.getmtime(os.path.join(root, f)))
    if os.path.exists(DRIVER_BIN) and os.path.getmtime(DRIVER_BIN) >= newest:
        return
    env = dict(os.environ, CARGO_NET_OFFLINE="true")
    r = subprocess.run(["cargo", "+nightly", "build", "--release", "--offline"], cwd=DRIVER_DIR,
                       env=env, stdout=subprocess.PIPE, stderr=subprocess.STDOUT, text=True)
    if r.returncode != 0:
        log.write(r.stdout)
        raise RuntimeError("driver build failed")


def _cargo_env(facts_dir, target_dir):
    env = dict(os.environ)
    sr = sysroot()
    env["LD_LIBRARY_PATH"] = os.path.join(sr, "lib") + (":" + env["LD_LIBRARY_PATH"] if env.get("LD_LIBRARY_PATH") else "")
    env["RUSTFLAGS"] = "-Zmir-opt-level=0 -Zalways-encode-mir -Awarnings"
    env["RUSTC_WORKSPACE_WRAPPER"] = DRIVER_BIN
    env["CARGO_TARGET_DIR"] = target_dir
    env["CARGO_NET_OFFLINE"] = "true"
    env["FBR_FACTS_DIR"] = facts_dir
    env.pop("RUSTC_WRAPPER", None)
    return env


def _run_extraction(repo, out_dir, all_targets=False):
    """Runs the driver over the workspace and over the harness crate (in parallel)."""
    scratch = tempfile.mkdtemp(prefix="fbr-facts-")
    try:
        facts_ws = os.path.join(scratch, "facts_ws")
        facts_en = os.path.join(scratch, "facts_en")
        os.makedirs(facts_ws)
        os.makedirs(facts_en)
        # workspace
        cmd = ["cargo", "+nightly", "check", "--offline", "--locked", "--workspace"]
        if all_targets:
            cmd.append("--all-targets")
        p1 = subprocess.Popen(cmd, cwd=repo, env=_cargo_env(facts_ws, os.path.join(scratch, "tgt_ws")),
                              stdout=subprocess.PIPE, stderr=subprocess.STDOUT, text=True)
        # harness crate: copied to scratch with the path dependencies pointed at `repo`
        en = os.path.join(scratch, "entries")
        shutil.copytree(ENTRIES_DIR, en, ignore=shutil.ignore_patterns("target", "Cargo.lock"))
        with open(os.path.join(en, "Cargo.toml")) as f:
            toml = f.read().replace("/repo/", repo.rstrip("/") + "/")
        with open(os.path.join(en, "Cargo.toml"), "w") as f:
            f.write(toml)
        shutil.copy(os.path.join(repo, "Cargo.lock"), os.path.join(en, "Cargo.lock"))
        p2 = subprocess.Popen(["cargo", "+nightly", "check", "--offline"], cwd=en,
                              env=_cargo_env(facts_en, os.path.join(scratch, "tgt_en")),
                              stdout=subprocess.PIPE, stderr=subprocess.STDOUT, text=True)
        out1, _ = p1.communicate()
        out2, _ = p2.communicate()
        status = {"workspace_rc": p1.returncode, "entries_rc": p2.returncode}
        if p1.returncode != 0:
            status["workspace_log"] = out1[-6000:]
        if p2.returncode != 0:
            status["entries_log"] = out2[-6000:]
        os.makedirs(out_dir, exist_ok=True)
        for d in (facts_ws, facts_en):
            for f in os.listdir(d):
                if f.endswith(".json"):
                    shutil.move(os.path.join(d, f), os.path.join(out_dir, f))
        with open(os.path.join(out_dir, "STATUS"), "w") as f:
            json.dump(status, f)
        return status
    finally:
        shutil.rmtree(scratch, ignore_errors=True)


def extract(repo="/repo", all_targets=False, log=sys.stderr):
    """Returns the directory with the fact files for the current tree of `repo`."""
    repo = os.path.abspath(repo)
    os.makedirs(CACHE_DIR, exist_ok=True)
    build_driver(log)
    key = tree_hash(repo, all_targets)
    out = os.path.join(CACHE_DIR, key)
    if os.path.exists(os.path.join(out, "STATUS")):
        return out
    lock_path = os.path.join(CACHE_DIR, ".lock-" + key)       # one lock per tree: different trees extract concurrently
    with open(lock_path, "w") as lk:
        fcntl.flock(lk, fcntl.LOCK_EX)
        if not os.path.exists(os.path.join(out, "STATUS")):
            t0 = time.time()
            tmp_out = out + ".partial"
            shutil.rmtree(tmp_out, ignore_errors=True)
            _run_extraction(repo, tmp_out, all_targets)
            shutil.rmtree(out, ignore_errors=True)
            os.rename(tmp_out, out)
            log.write("[facts] extracted %s in %.1fs -> %s\n" % (repo, time.time() - t0, out))
            _prune_cache(keep=out)
    try:
        os.remove(lock_path)
    except OSError:
        pass
    return out


def _prune_cache(keep, max_entries=120, min_age_s=2700):
    """Oldest entries beyond `max_entries` are removed, but never one younger than `min_age_s`
    (another check process may be reading it)."""
    ents = []
    now = time.time()
    for d in os.listdir(CACHE_DIR):
        p = os.path.join(CACHE_DIR, d)
        if os.path.isdir(p) and p != keep and now - os.path.getmtime(p) > min_age_s:
            ents.append((os.path.getmtime(p), p))
    ents.sort()
    while len(ents) > max_entries - 1:
        _, p = ents.pop(0)
        shutil.rmtree(p, ignore_errors=True)


class Facts:
    """Lazy access to the per-crate fact files."""

    def __init__(self, directory, repo="/repo"):
        self.dir = directory
        self.repo = os.path.abspath(repo)
        with open(os.path.join(directory, "STATUS")) as f:
            self.status = json.load(f)
        self._crates = {}
        self._files = {}
        for f in sorted(os.listdir(directory)):
            if f.endswith(".json"):
                name = f.split("__")[0]
                test = "__test__" in f
                self._files.setdefault((name, test), []).append(os.path.join(directory, f))

    def available(self):
        return sorted(self._files.keys())

    def build_ok(self):
        return self.status.get("workspace_rc") == 0 and self.status.get("entries_rc") == 0

    def crate(self, name, test=False):
        k = (name, test)
        if k not in self._crates:
            files = self._files.get(k)
            if not files:
                raise KeyError("no facts for crate %s (test=%s)" % (name, test))
            with open(files[0]) as f:
                self._crates[k] = Crate(json.load(f), self.repo)
        return self._crates[k]

    def mono(self):
        return self.crate("fbr_entries").raw["mono"]


def norm_sp(sp, repo="/repo"):
    if sp and sp.startswith(repo.rstrip("/") + "/"):
        return sp[len(repo.rstrip("/")) + 1:]
    return sp


class Crate:
    def __init__(self, raw, repo):
        self.raw = raw
        self.name = raw["crate"]
        self.bodies = raw["bodies"]
        self.by_path = {}
        self.by_key = {}
        for b in self.bodies:
            self.by_path.setdefault(b["path"], []).append(b)
            self.by_key[b["key"]] = b
        self.adts = {a["path"]: a for a in raw["adts"]}
        self.consts = {c["path"]: c for c in raw["consts"]}
        self.impls = raw["impls"]
        self.traits = {t["path"]: t for t in raw["traits"]}
        self._fold_const_arrays()
        self._normalise_qualified_method_calls()
        self._stream_generics_as_impl_trait()

    STREAM_TRAITS = ("ClassRead", "ClassWrite", "Read", "Write", "BufRead", "Seek")

    def _stream_generics_as_impl_trait(self):
        """`fn f<R: ClassRead>(reader: &mut R)` / `where R: ClassRead` is read as `fn f(reader: &mut impl ClassRead)`: a type parameter
        whose only bounds are stream traits is replaced by `impl Trait` in the type strings of the function (refactor r4-A7), so that
        rules which recognise the byte stream by its type see one spelling."""
        import re
        from lib import hir as H
        for b in self.bodies:
            bounds = b.get("bounds") or []
            if not bounds:
                continue
            by_param = {}
            for x in bounds:
                by_param.setdefault(x["param"], []).append(x["trait"].rsplit("::", 1)[-1])
            subst = {}
            for p, trs in by_param.items():
                trs = [t for t in trs if t != "Sized"]
                if trs and all(t in self.STREAM_TRAITS for t in trs) and not p.startswith("impl "):
                    subst[p] = "impl " + " + ".join(sorted(set(trs)))
            if not subst:
                continue
            rx = re.compile(r"(?<![A-Za-z0-9_:])(%s)(?![A-Za-z0-9_:])" % "|".join(re.escape(p) for p in subst))
            fix = lambda t: rx.sub(lambda m: subst[m.group(1)], t) if isinstance(t, str) else t
            if b.get("inputs"):
                b["inputs"] = [fix(t) for t in b["inputs"]]
            if b.get("output"):
                b["output"] = fix(b["output"])
            stack = list(b.get("params") or []) + ([b["body"]] if isinstance(b.get("body"), dict) else [])
            while stack:
                n = stack.pop()
                if isinstance(n, dict):
                    for k in ("ty", "tya"):
                        if isinstance(n.get(k), str):
                            n[k] = fix(n[k])
                    stack.extend(v for v in n.values() if isinstance(v, (dict, list)))
                elif isinstance(n, list):
                    stack.extend(n)

    def _normalise_qualified_method_calls(self):
        """`Type::method(recv, a, b)` on an inherent method of a workspace type that takes `self` is the same call as `recv.method(a, b)`;
        the fully qualified spelling is rewritten to the method-call node, so that rules see one form (refactor r4-A3)."""
        from lib import hir as H
        takes_self = {}
        for b in self.bodies:
            if b.get("dk") == "AssocFn" and b.get("params"):
                p0 = b["params"][0]
                while p0.get("k") in ("pref", "pderef"):
                    p0 = p0["pat"]
                takes_self[b["key"]] = p0.get("k") == "bind" and p0.get("name") == "self" and not b.get("impl_trait")
        if not any(takes_self.values()):
            return
        for b in self.bodies:
            if not isinstance(b.get("body"), dict):
                continue
            for n in H.walk(b["body"]):
                if n.get("k") != "call" or not n.get("args"):
                    continue
                c = n.get("callee") or {}
                key = c.get("inst_key") or c.get("key")
                if c.get("dk") == "AssocFn" and takes_self.get(key):
                    args = n["args"]
                    n["k"] = "mcall"
                    n["name"] = self.by_key[key].get("name") or key.rsplit("::", 1)[-1]
                    n["recv"] = args[0]
                    n["args"] = args[1:]
                    n["qualified"] = True
                    n.pop("f", None)

    def _fold_const_arrays(self):
        """`const TABLE: [&str; 2] = ["a", "b"]; .. TABLE[0] ..`: the driver evaluates scalar and string consts only; an array const whose
        initialiser is a literal array gets its value here, and `TABLE[<literal index>]` is folded to the element (so that a literal moved
        into a named table reads like the literal)."""
        from lib import hir as H
        arrays = {}
        for c in self.raw["consts"]:
            if c.get("value") is not None:
                continue
            b = self.by_key.get(c.get("key"))
            if b is None or not isinstance(b.get("body"), dict):
                continue
            e = H.peel(b["body"])
            while e.get("k") == "block" and not e.get("stmts") and "tail" in e:
                e = H.peel(e["tail"])
            if e.get("k") != "array":
                continue
            vals = [H.const_value(x) for x in e["es"]]
            if vals and all(isinstance(v, (int, str, bool)) for v in vals):
                c["value"] = vals
                arrays[c["key"]] = vals
        if not arrays:
            return
        for b in self.bodies:
            if not isinstance(b.get("body"), dict):
                continue
            for n in H.walk(b["body"]):
                if n.get("k") == "index":
                    base = H.peel(n["e"])
                    i = H.const_value(n["i"])
                    if base.get("k") == "path" and base["res"].get("r") == "def" and base["res"].get("key") in arrays and isinstance(i, int) \
                            and not isinstance(i, bool) and 0 <= i < len(arrays[base["res"]["key"]]):
                        v = arrays[base["res"]["key"]][i]
                        keep = {k: n[k] for k in ("ty", "tya", "sp") if k in n}
                        n.clear()
                        n.update(keep)
                        n["k"] = "lit"
                        n["lit"] = {"t": "str" if isinstance(v, str) else ("bool" if isinstance(v, bool) else "int"), "v": v}
                        n["folded_from"] = base["res"].get("path")

    def body(self, path):
        """Exactly one body with this pretty path, else None."""
        bs = self.by_path.get(path, [])
        return bs[0] if len(bs) == 1 else None

    def fns(self, name, within=None, impl_ty=None, trait=None):
        """Functions/methods called `name` (optionally: path contains `within`, impl self type contains
        `impl_ty`, implemented trait path contains `trait`)."""
        out = []
        for b in self.bodies:
            if b.get("name") != name:
                continue
            if within is not None and within not in b["path"] and within not in b["key"]:
                continue
            if impl_ty is not None and impl_ty not in (b.get("impl_ty") or ""):
                continue
            if trait is not None and trait not in (b.get("impl_trait") or ""):
                continue
            out.append(b)
        return out

    def fn(self, name, within=None, impl_ty=None, trait=None):
        """The unique function with this name (and qualifiers), else None."""
        r = self.fns(name, within, impl_ty, trait)
        return r[0] if len(r) == 1 else None

    def bodies_matching(self, pred):
        return [b for b in self.bodies if pred(b)]

    def const_values(self, prefix):
        """{NAME: value} for every const directly inside module `prefix`."""
        out = {}
        for p, c in self.consts.items():
            if p.startswith(prefix + "::") and "::" not in p[len(prefix) + 2:]:
                out[c["name"]] = c["value"]
        return out
