"""Helpers for C20 (raw_class_file): the `notation!` DSL parsed from pre-expansion token trees, integer polynomials
over len()-variables, and a small expression parser over tokens.

Token trees as dumped by the driver: {"t": "ident"|"punct"|"lit"|"group", "s": text, "d": delimiter, "ts": [...]}."""


class Unrecognised(Exception):
    """A construct of the DSL / of an expression that this parser does not understand (callers fail closed)."""


# ------------------------------------------------------------------------------------------------ tokens
def is_p(t, s):
    return t is not None and t.get("t") == "punct" and t.get("s") == s


def is_id(t, s=None):
    return t is not None and t.get("t") == "ident" and (s is None or t.get("s") == s)


def is_grp(t, d):
    return t is not None and t.get("t") == "group" and t.get("d") == d


def tok_text(ts):
    """Pseudo-source of a token list (reports only)."""
    out = []
    for t in ts:
        if t["t"] == "group":
            close = {"(": ")", "[": "]", "{": "}"}.get(t["d"], "")
            out.append(t["d"] + tok_text(t["ts"]) + close)
        else:
            out.append(t["s"])
    return " ".join(out)


def split_commas(ts):
    """Split a token list at top-level commas; a trailing comma gives no empty last piece."""
    out, cur = [], []
    for t in ts:
        if is_p(t, ","):
            out.append(cur)
            cur = []
        else:
            cur.append(t)
    if cur:
        out.append(cur)
    return out


def parse_lit(s):
    """Rust literal text -> ("int", v) | ("bytes", b"..") | ("str", "..") | None."""
    if s.startswith("b'") and s.endswith("'"):
        body = s[2:-1]
        if len(body) == 1:
            return ("int", ord(body))
        esc = {"\\n": 10, "\\r": 13, "\\t": 9, "\\\\": 92, "\\0": 0, "\\'": 39, '\\"': 34}
        if body in esc:
            return ("int", esc[body])
        if body.startswith("\\x") and len(body) == 4:
            return ("int", int(body[2:], 16))
        return None
    if s.startswith('b"') and s.endswith('"'):
        body = s[2:-1]
        if "\\" in body:
            return None
        return ("bytes", body.encode("latin-1"))
    if s.startswith('"'):
        return ("str", s[1:-1])
    t = s.replace("_", "")
    for suf in ("u8", "u16", "u32", "u64", "usize", "i8", "i16", "i32", "i64", "isize"):
        if t.endswith(suf) and len(t) > len(suf):
            t = t[:-len(suf)]
            break
    try:
        if t.startswith(("0x", "0X")):
            return ("int", int(t[2:], 16))
        if t.startswith(("0b", "0B")):
            return ("int", int(t[2:], 2))
        if t.startswith(("0o", "0O")):
            return ("int", int(t[2:], 8))
        return ("int", int(t))
    except ValueError:
        return None


# ------------------------------------------------------------------------------------------------ polynomials
class Poly:
    """Integer polynomial: {monomial (sorted tuple of variable names): coefficient}."""

    def __init__(self, terms=None):
        self.t = {k: v for k, v in (terms or {}).items() if v != 0}

    @staticmethod
    def const(c):
        return Poly({(): c})

    @staticmethod
    def var(name):
        return Poly({(name,): 1})

    def __add__(self, o):
        r = dict(self.t)
        for k, v in o.t.items():
            r[k] = r.get(k, 0) + v
        return Poly(r)

    def __neg__(self):
        return Poly({k: -v for k, v in self.t.items()})

    def __sub__(self, o):
        return self + (-o)

    def __mul__(self, o):
        r = {}
        for k1, v1 in self.t.items():
            for k2, v2 in o.t.items():
                k = tuple(sorted(k1 + k2))
                r[k] = r.get(k, 0) + v1 * v2
        return Poly(r)

    def __eq__(self, o):
        return isinstance(o, Poly) and self.t == o.t

    def __hash__(self):
        return hash(tuple(sorted(self.t.items())))

    def is_const(self):
        return all(k == () for k in self.t)

    def const_value(self):
        return self.t.get((), 0) if self.is_const() else None

    def vars(self):
        return sorted({v for k in self.t for v in k})

    def subst(self, name, poly):
        """Replace variable `name` by `poly` (only for monomials linear in it; others raise)."""
        out = Poly()
        for k, c in self.t.items():
            n = k.count(name)
            rest = Poly({tuple(v for v in k if v != name): c})
            term = rest
            for _ in range(n):
                term = term * poly
            out = out + term
        return out

    def rename(self, f):
        out = {}
        for k, c in self.t.items():
            nk = tuple(sorted(f(v) for v in k))
            out[nk] = out.get(nk, 0) + c
        return Poly(out)

    def linear_in(self, name):
        """(a, b) with self == a*name + b, a and b integer constants; else None."""
        a = self.t.get((name,), 0)
        rest = {k: v for k, v in self.t.items() if k != (name,)}
        if any(k != () for k in rest):
            return None
        return a, rest.get((), 0)

    def show(self):
        if not self.t:
            return "0"
        parts = []
        for k in sorted(self.t, key=lambda k: (len(k), k)):
            c = self.t[k]
            if k == ():
                parts.append(str(c))
            else:
                m = "*".join(k)
                parts.append(m if c == 1 else ("-" + m if c == -1 else "%d*%s" % (c, m)))
        return " + ".join(parts).replace("+ -", "- ")

    __repr__ = show


# ------------------------------------------------------------------------------------------------ expression parser
class ExprParser:
    """Integer expressions over tokens: literals, `a.b.len()`, `x._len()`, identifiers, unary `*`/`&` (ignored),
    `as T` (ignored), parentheses, `+ - *`. Variables:
      ("len", root, field...)  for `place.len()`      -> name "len(<last field>)"
      ("total", root)          for `root._len()`       -> name "total(<root>)"
      ident                    for a plain identifier  -> name "<ident>"
    Anything else raises Unrecognised."""

    def __init__(self, ts):
        self.ts = ts
        self.i = 0

    def peek(self):
        return self.ts[self.i] if self.i < len(self.ts) else None

    def next(self):
        t = self.peek()
        self.i += 1
        return t

    def parse(self):
        v = self.additive()
        if self.peek() is not None:
            raise Unrecognised("trailing tokens in expression: %s" % tok_text(self.ts[self.i:]))
        return v

    def additive(self):
        v = self.mult()
        while True:
            t = self.peek()
            if is_p(t, "+"):
                self.next()
                v = v + self.mult()
            elif is_p(t, "-"):
                self.next()
                v = v - self.mult()
            else:
                return v

    def mult(self):
        v = self.cast()
        while is_p(self.peek(), "*"):
            self.next()
            v = v * self.cast()
        return v

    def cast(self):
        v = self.unary()
        while is_id(self.peek(), "as"):
            self.next()
            t = self.next()
            if not is_id(t) or t["s"] not in ("u8", "u16", "u32", "u64", "usize", "i32", "i64"):
                raise Unrecognised("cast to %r" % (t and t.get("s")))
        return v

    def unary(self):
        t = self.peek()
        if is_p(t, "*") or is_p(t, "&"):
            self.next()
            return self.unary()
        if is_p(t, "-"):
            self.next()
            return -self.unary()
        return self.postfix()

    def postfix(self):
        t = self.next()
        if t is None:
            raise Unrecognised("empty expression")
        if t["t"] == "lit":
            l = parse_lit(t["s"])
            if not l or l[0] != "int":
                raise Unrecognised("literal %s" % t["s"])
            return Poly.const(l[1])
        if is_grp(t, "("):
            return ExprParser(t["ts"]).parse()
        if not is_id(t):
            raise Unrecognised("token %s" % tok_text([t]))
        path = [t["s"]]
        while is_p(self.peek(), "."):
            self.next()
            m = self.next()
            if not is_id(m):
                raise Unrecognised("after `.`: %s" % (m and tok_text([m])))
            if is_grp(self.peek(), "("):
                g = self.next()
                if g["ts"]:
                    raise Unrecognised("method call with arguments: %s" % m["s"])
                if m["s"] == "len":
                    if len(path) < 1:
                        raise Unrecognised("len() of nothing")
                    return Poly.var("len(%s)" % path[-1]) if self._end_of_postfix() else self._bad("chained call after len()")
                if m["s"] == "_len":
                    if len(path) != 1:
                        raise Unrecognised("_len() of a field")
                    return Poly.var("total(%s)" % path[0]) if self._end_of_postfix() else self._bad("chained call after _len()")
                raise Unrecognised("method %s()" % m["s"])
            path.append(m["s"])
        if len(path) != 1:
            raise Unrecognised("field path %s used as a value" % ".".join(path))
        return Poly.var(path[0])

    def _end_of_postfix(self):
        return not is_p(self.peek(), ".")

    def _bad(self, what):
        raise Unrecognised(what)


def parse_expr(ts):
    return ExprParser(list(ts)).parse()


# ------------------------------------------------------------------------------------------------ the DSL
PRIMS = {"u8": 1, "u16": 2, "u32": 4}


def _strip_attrs(ts):
    """Drop leading `#[...]` attribute token pairs (doc comments)."""
    i = 0
    while i < len(ts):
        if ts[i].get("t") == "doc":
            i += 1
        elif i + 1 < len(ts) and is_p(ts[i], "#") and is_grp(ts[i + 1], "["):
            i += 2
        else:
            break
    return ts[i:]


def _parse_item(piece, in_enum):
    """One comma-separated piece of a struct/variant body ->
       {"role": "const", name, ty, expr}  |
       {"role": "field", name, ty, elem, cw, ext, nowrite, pool_set}"""
    ts = _strip_attrs(piece)
    if not ts:
        raise Unrecognised("empty item")
    if is_id(ts[0], "const"):
        if not (len(ts) >= 6 and is_id(ts[1]) and is_p(ts[2], ":") and is_id(ts[3]) and is_p(ts[4], "=")):
            raise Unrecognised("const item: %s" % tok_text(ts))
        return {"role": "const", "name": ts[1]["s"], "ty": ts[3]["s"], "expr": ts[5:], "line": ts[0].get("line")}
    if is_id(ts[0], "mut"):
        if not (len(ts) >= 4 and is_id(ts[1]) and is_p(ts[2], ":") and is_id(ts[3])):
            raise Unrecognised("field item: %s" % tok_text(ts))
        it = {"role": "field", "name": ts[1]["s"], "ty": ts[3]["s"], "elem": None, "cw": None, "ext": None,
              "nowrite": None, "pool_set": None, "line": ts[0].get("line")}
        i = 4
        if i < len(ts) and is_p(ts[i], "<"):
            if not (i + 2 < len(ts) and is_id(ts[i + 1]) and is_p(ts[i + 2], ">")):
                raise Unrecognised("generic argument of field %s" % it["name"])
            it["elem"] = ts[i + 1]["s"]
            i += 3
            if i < len(ts) and is_grp(ts[i], "["):
                g = ts[i]["ts"]
                if not (len(g) == 1 and is_id(g[0])):
                    raise Unrecognised("count width of field %s" % it["name"])
                it["cw"] = g[0]["s"]
                i += 1
            if i < len(ts) and is_grp(ts[i], "{"):
                it["ext"] = ts[i]["ts"]
                i += 1
        if i < len(ts):
            if not in_enum and is_p(ts[i], ";"):
                it["pool_set"] = ts[i + 1:]
                i = len(ts)
            elif in_enum and i + 2 < len(ts) and is_id(ts[i]) and is_p(ts[i + 1], "="):
                it["nowrite"] = ts[i + 2:]
                it["nowrite_kw"] = ts[i]["s"]
                i = len(ts)
        if i != len(ts):
            raise Unrecognised("trailing tokens in field %s: %s" % (it["name"], tok_text(ts[i:])))
        return it
    raise Unrecognised("item starts with %s" % tok_text(ts[:1]))


def parse_pattern(ts):
    """Tag pattern of a variant -> {"kind": "lit", v} | {"kind": "range", lo, hi, bind} | {"kind": "bind", name}."""
    if len(ts) == 1 and ts[0]["t"] == "lit":
        l = parse_lit(ts[0]["s"])
        if l and l[0] == "int":
            return {"kind": "lit", "v": l[1]}
    if len(ts) == 1 and is_id(ts[0]):
        return {"kind": "bind", "name": ts[0]["s"]}
    # `lo..=hi` and the half-open `lo..hi` (= lo..=hi-1) are the same pattern; "hi" is always the inclusive bound
    if len(ts) == 5 and is_id(ts[0]) and is_p(ts[1], "@") and ts[2]["t"] == "lit" and (is_p(ts[3], "..=") or is_p(ts[3], "..")) and ts[4]["t"] == "lit":
        lo, hi = parse_lit(ts[2]["s"]), parse_lit(ts[4]["s"])
        if lo and hi and lo[0] == hi[0] == "int":
            return {"kind": "range", "lo": lo[1], "hi": hi[1] - (0 if is_p(ts[3], "..=") else 1), "bind": ts[0]["s"]}
    if len(ts) == 3 and ts[0]["t"] == "lit" and (is_p(ts[1], "..=") or is_p(ts[1], "..")) and ts[2]["t"] == "lit":
        lo, hi = parse_lit(ts[0]["s"]), parse_lit(ts[2]["s"])
        if lo and hi and lo[0] == hi[0] == "int":
            return {"kind": "range", "lo": lo[1], "hi": hi[1] - (0 if is_p(ts[1], "..=") else 1), "bind": None}
    raise Unrecognised("tag pattern: %s" % tok_text(ts))


def parse_notation(call):
    """One `notation!{...}` invocation -> model dict, or raises Unrecognised."""
    ts = _strip_attrs(call["tokens"])
    if len(ts) < 3:
        raise Unrecognised("too short")
    if is_id(ts[0], "struct"):
        name = ts[1]["s"]
        i = 2
        binder = None
        if is_id(ts[i]):
            binder = ts[i]["s"]
            i += 1
        if not (is_grp(ts[i], "{") and i == len(ts) - 1):
            raise Unrecognised("struct %s: body" % name)
        items = [_parse_item(p, False) for p in split_commas(ts[i]["ts"])]
        return {"kind": "struct", "name": name, "binder": binder, "items": items, "sp": call.get("sp")}
    if is_id(ts[0], "enum"):
        name = ts[1]["s"]
        i = 2
        pool_alias = None
        if is_grp(ts[i], "["):
            g = ts[i]["ts"]
            if not (len(g) == 1 and is_id(g[0])):
                raise Unrecognised("enum %s: pool alias" % name)
            pool_alias = g[0]["s"]
            i += 1
        if not (is_grp(ts[i], "{") and i == len(ts) - 1):
            raise Unrecognised("enum %s: body" % name)
        pieces = split_commas(ts[i]["ts"])
        head = pieces[0]
        if not (len(head) == 3 and is_id(head[0]) and is_p(head[1], ":") and is_id(head[2])):
            raise Unrecognised("enum %s: tag declaration" % name)
        model = {"kind": "enum", "name": name, "pool_alias": pool_alias, "tag_name": head[0]["s"], "tag_ty": head[2]["s"],
                 "variants": [], "fallback": None, "sp": call.get("sp")}
        for k, p in enumerate(pieces[1:]):
            p = _strip_attrs(p)
            if len(p) == 2 and is_id(p[0], "_") and is_grp(p[1], "{"):
                if k != len(pieces) - 2:
                    raise Unrecognised("enum %s: fallback is not last" % name)
                fb = split_commas(p[1]["ts"])
                if len(fb) != 1:
                    raise Unrecognised("enum %s: fallback arm" % name)
                arrow = [j for j, t in enumerate(fb[0]) if is_p(t, "=>")]
                if len(arrow) != 1:
                    raise Unrecognised("enum %s: fallback arm" % name)
                model["fallback"] = {"pat": fb[0][:arrow[0]], "expr": fb[0][arrow[0] + 1:]}
                continue
            if not (is_id(p[0]) and is_grp(p[-1], "{") and len(p) in (2, 3)):
                raise Unrecognised("enum %s: variant %s" % (name, tok_text(p[:2])))
            v = {"name": p[0]["s"], "binder": p[1]["s"] if len(p) == 3 and is_id(p[1]) else None, "line": p[0].get("line")}
            if len(p) == 3 and not is_id(p[1]):
                raise Unrecognised("enum %s: variant %s binder" % (name, v["name"]))
            vp = split_commas(p[-1]["ts"])
            h = vp[0]
            if not (h and is_p(h[0], "=")):
                raise Unrecognised("enum %s::%s: tag line" % (name, v["name"]))
            arrow = [j for j, t in enumerate(h) if is_p(t, "=>")]
            if len(arrow) != 1:
                raise Unrecognised("enum %s::%s: tag line" % (name, v["name"]))
            v["tag_expr"] = h[1:arrow[0]]
            rest = h[arrow[0] + 1:]
            ifs = [j for j, t in enumerate(rest) if is_id(t, "if")]
            if ifs:
                v["tag_pat"] = rest[:ifs[0]]
                v["guard"] = rest[ifs[0] + 1:]
            else:
                v["tag_pat"] = rest
                v["guard"] = None
            v["items"] = [_parse_item(x, True) for x in vp[1:]]
            model["variants"].append(v)
        return model
    raise Unrecognised("neither struct nor enum: %s" % tok_text(ts[:2]))
