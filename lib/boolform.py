"""Boolean structure of predicate expressions: and/or/not/if-else/matches! over atoms; compared by truth table."""
import itertools

from . import hir as H


def formula(n, atom):
    """`atom(node)` -> hashable key for a leaf predicate, or None if the leaf is not recognised
    (then the rendered text becomes an opaque atom, which will not match any spec atom)."""
    n = H.peel(n, refs=False)
    k = n.get("k")
    if k == "block":
        if not n["stmts"] and "tail" in n:
            return formula(n["tail"], atom)
        # `if c { return <bool> } .. <tail>` (early exits of a bool-valued closure / function body): ite(c, <bool>, <rest>)
        items = list(n["stmts"]) + ([n["tail"]] if "tail" in n else [])
        if items:
            def rest(i):
                if i == len(items) - 1:
                    last = H.peel(items[i], refs=False)
                    if last.get("k") == "semi":
                        last = H.peel(last["e"], refs=False)
                    if last.get("k") == "ret" and "e" in last:
                        return formula(last["e"], atom)
                    return formula(items[i], atom)
                st = H.peel(items[i], refs=False)
                if st.get("k") == "semi":
                    st = H.peel(st["e"], refs=False)
                if st.get("k") == "if" and "else" not in st and H.peel(st["cond"], refs=False).get("k") != "letexpr":
                    th = H.peel(st["then"], refs=False)
                    while th.get("k") == "block" and len(th.get("stmts", [])) + (1 if "tail" in th else 0) == 1:
                        th = H.peel((th["stmts"] + ([th["tail"]] if "tail" in th else []))[0], refs=False)
                        if th.get("k") == "semi":
                            th = H.peel(th["e"], refs=False)
                    if th.get("k") == "ret" and "e" in th:
                        return ("ite", formula(st["cond"], atom), formula(th["e"], atom), rest(i + 1))
                return None
            shaped = all(H.peel(x, refs=False).get("k") in ("if", "semi") for x in items[:-1])
            if shaped and len(items) > 1:
                r = rest(0)
                if r is not None and "?" not in str(r)[:0]:
                    return r
    if k == "lit" and (n.get("lit") or {}).get("t") == "bool":
        return ("const", n["lit"]["v"])
    if k == "bin" and n["op"] in ("&&", "||"):
        return ("and" if n["op"] == "&&" else "or", formula(n["l"], atom), formula(n["r"], atom))
    if k == "un" and n["op"] == "!":
        return ("not", formula(n["e"], atom))
    if k == "if" and "else" in n:
        return ("ite", formula(n["cond"], atom), formula(n["then"], atom), formula(n["else"], atom))
    a = atom(n)
    if a is not None:
        return a if isinstance(a, tuple) and a and a[0] in ("and", "or", "not", "ite", "const", "atom") else ("atom", a)
    return ("atom", "?" + H.render(n))


def atoms(f, out=None):
    if out is None:
        out = []
    if f[0] == "atom":
        if f[1] not in out:
            out.append(f[1])
    elif f[0] != "const":
        for x in f[1:]:
            atoms(x, out)
    return out


def ev(f, env):
    t = f[0]
    if t == "const":
        return f[1]
    if t == "atom":
        return env[f[1]]
    if t == "and":
        return ev(f[1], env) and ev(f[2], env)
    if t == "or":
        return ev(f[1], env) or ev(f[2], env)
    if t == "not":
        return not ev(f[1], env)
    if t == "ite":
        return ev(f[2], env) if ev(f[1], env) else ev(f[3], env)
    raise ValueError(t)


def equivalent(f, g, constraints=None):
    """(equal?, counterexample env).  `constraints(env)` may rule out impossible atom assignments."""
    names = atoms(f) + [a for a in atoms(g) if a not in atoms(f)]
    for vals in itertools.product([False, True], repeat=len(names)):
        env = dict(zip(names, vals))
        if constraints and not constraints(env):
            continue
        if ev(f, env) != ev(g, env):
            return False, env
    return True, None


def show(f):
    t = f[0]
    if t == "const":
        return str(f[1]).lower()
    if t == "atom":
        return str(f[1])
    if t == "not":
        return "!" + show(f[1])
    if t == "and":
        return "(%s && %s)" % (show(f[1]), show(f[2]))
    if t == "or":
        return "(%s || %s)" % (show(f[1]), show(f[2]))
    if t == "ite":
        return "(if %s then %s else %s)" % (show(f[1]), show(f[2]), show(f[3]))
    return "?"
