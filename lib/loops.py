"""Loop-progress analysis on the mono MIR facts (C16 R16.5: "does not loop forever").

Static, structural: for every natural loop of every reachable workspace function the rule looks for a *progress edge* on every cycle
through the loop head.  A progress edge is the success edge of a *step call*:

  * Option step  : `next` / `next_back` / `next_if` / `next_if_eq` of a std/indexmap/java_string iterator whose type is built only from
                   finite iterator constructors (Range over integers, slice/Vec/Chars/Split/Lines/..., adaptors over those) - the `Some`
                   edge consumes one element of a finite sequence, the `None` edge must therefore leave the cycle;
  * Result step  : a call of a workspace function that *must consume input* on every successful return (summary computed bottom-up from
                   `Read::read_exact` on a non-empty fixed-size buffer) - the `Ok` edge advances a cursor over finite input.

Which out-edge is the success edge is found by following the call's destination through moves, borrows, `Try::branch`, `is_some`/`is_none`/
`is_ok`/`is_err`, `ok_or(_else)`, `(with_)context`, `map_err`, `map` and `discriminant` reads up to the `SwitchInt` that tests it.  If that
cannot be followed the call is no progress (fail closed: the loop is reported).

A loop is *driven* if the sub-graph of its body without the progress edges has no path from the head back to the head.
"""
import re

from lib import mir as M

# type constructors (last path segment) that may occur in the Self type of a finite iterator
FINITE_CTORS = {
    # sources
    "Range", "RangeInclusive", "Iter", "IterMut", "IntoIter", "Chars", "CharIndices", "Bytes", "Split", "SplitN", "RSplit", "RSplitN",
    "SplitTerminator", "SplitInclusive", "SplitWhitespace", "SplitAsciiWhitespace", "Lines", "Matches", "MatchIndices", "Windows", "Chunks",
    "ChunksExact", "Keys", "Values", "ValuesMut", "IntoKeys", "IntoValues", "Drain", "EscapeDebug", "EscapeDefault", "EscapeUnicode",
    "Once", "Empty", "ArrayChunks", "Utf8Chunks", "EncodeUtf16", "ToLowercase", "ToUppercase", "CharsLossy",
    # adaptors (finite when the inner iterator is finite)
    "Peekable", "Enumerate", "Map", "Filter", "FilterMap", "Zip", "Skip", "Take", "Rev", "Cloned", "Copied", "StepBy", "Chain", "TakeWhile",
    "SkipWhile", "MapWhile", "Inspect", "Fuse", "Flatten", "FlatMap", "Scan", "GenericShunt", "ByRefSized", "Intersperse",
    # containers / plumbing that appear as type arguments
    "Vec", "String", "Option", "Result", "Box", "BufReader", "Cursor", "IndexMap", "IndexSet", "HashMap", "HashSet", "BTreeMap", "BTreeSet",
    "Bucket", "Error", "Global", "RandomState", "JavaStr", "JavaString", "JavaCodePoint", "Infallible", "Pattern", "CharEq", "Take",
    "CharPredicateSearcher", "CharSearcher", "StrSearcher", "File", "Stdin", "StdinLock", "Iterator", "DoubleEndedIterator", "IntoIterator",
    "PhantomData", "Searcher",
}
INFINITE_CTORS = {"Repeat", "RepeatWith", "Cycle", "RangeFrom", "Successors", "FromFn", "RepeatN", "Unfold", "Iterate"}
OPTION_STEP_NAMES = {"next", "next_back", "next_if", "next_if_eq", "nth"}
# calls that hand a tracked Option/Result on with the same success polarity
SAME_POLARITY = {"ok_or", "ok_or_else", "context", "with_context", "map_err", "map", "ok", "copied", "cloned", "as_ref", "as_mut", "inspect",
                 "inspect_err", "as_deref", "as_deref_mut", "or_else_err"}
SEEK_NAMES = {"set_position", "seek", "rewind", "seek_relative"}

_IDENT = re.compile(r"[A-Za-z_][A-Za-z0-9_]*")


def _strip_closures(s):
    """removes `{closure@...}` / `{closure#n}` groups (they may contain arbitrary paths)."""
    out, d = [], 0
    for ch in s:
        if ch == "{":
            d += 1
        elif ch == "}":
            d -= 1
        elif d == 0:
            out.append(ch)
    return "".join(out)


def self_type_of(full):
    """the Self type text of a method path: `<T as Trait>::m` -> T ; `a::B::<X>::m::<Y>` -> `a::B::<X>`."""
    full = full.strip()
    if full.startswith("<"):
        d = 0
        for i, ch in enumerate(full):
            if ch == "<":
                d += 1
            elif ch == ">":
                d -= 1
                if d == 0:
                    inner = full[1:i]
                    # split at top-level " as "
                    dd = 0
                    for j in range(len(inner)):
                        if inner[j] == "<":
                            dd += 1
                        elif inner[j] == ">":
                            dd -= 1
                        elif dd == 0 and inner.startswith(" as ", j):
                            return inner[:j]
                    return inner
        return full
    # inherent: drop the last path segment (method, with its own generic args) at nesting depth 0
    d = 0
    cut = None
    i = 0
    while i < len(full):
        ch = full[i]
        if ch == "<":
            d += 1
        elif ch == ">":
            d -= 1
        elif d == 0 and full.startswith("::", i):
            cut = i
            i += 1
        i += 1
    base = full[:cut] if cut is not None else full
    # `a::B::<X>::m::<Y>`: the cut found is before `<Y>`'s owner `m`? find the segment that is the method name
    m = re.match(r"^(.*)::([a-z_][A-Za-z0-9_]*)(::<.*>)?$", full)
    if m and _balanced(m.group(1)):
        return m.group(1)
    return base


def method_name(full):
    """last path segment of a (possibly generic, possibly `<T as Trait>::m::<X>`) function path, without generic arguments."""
    s = full.strip()
    while s.endswith(">"):
        d = 0
        i = len(s) - 1
        while i >= 0:
            if s[i] == ">":
                d += 1
            elif s[i] == "<":
                d -= 1
                if d == 0:
                    break
            i -= 1
        if i <= 0:
            break
        s = s[:i]
        if s.endswith("::"):
            s = s[:-2]
    m = re.search(r"([A-Za-z_][A-Za-z0-9_]*|\{[^{}]*\})$", s)
    return m.group(1) if m else s


def _balanced(s):
    d = 0
    for ch in s:
        if ch == "<":
            d += 1
        elif ch == ">":
            d -= 1
            if d < 0:
                return False
    return d == 0


SOURCE_CTORS = {
    "Range", "RangeInclusive", "Iter", "IterMut", "IntoIter", "Chars", "CharIndices", "Bytes", "Split", "SplitN", "RSplit", "RSplitN",
    "SplitTerminator", "SplitInclusive", "SplitWhitespace", "SplitAsciiWhitespace", "Lines", "Matches", "MatchIndices", "Windows", "Chunks",
    "ChunksExact", "Keys", "Values", "ValuesMut", "IntoKeys", "IntoValues", "Drain", "EscapeDebug", "EscapeDefault", "EscapeUnicode",
    "Once", "Empty", "ArrayChunks", "EncodeUtf16", "ToLowercase", "ToUppercase", "RChunks", "ChunkBy", "Difference", "Union", "Intersection",
}
ADAPTOR_CTORS = {
    "Peekable", "Enumerate", "Map", "Filter", "FilterMap", "Zip", "Skip", "Take", "Rev", "Cloned", "Copied", "StepBy", "Chain", "TakeWhile",
    "SkipWhile", "MapWhile", "Inspect", "Fuse", "Flatten", "FlatMap", "Scan", "GenericShunt", "ByRefSized", "Intersperse", "Box",
}
NEUTRAL_ARG_CTORS = {"Result", "Option", "Infallible", "Error", "", "fn", "char", "str", "bool"}


def parse_type(s):
    """-> (ctor, [args]) of a rendered type; ctor is the last path segment ('' for closures/tuples/refs are unwrapped)."""
    s = s.strip()
    s = re.sub(r"^&\s*('[a-z_]+\s*)?(mut\s+)?", "", s).strip()
    while s.startswith("&"):
        s = re.sub(r"^&\s*('[a-z_]+\s*)?(mut\s+)?", "", s).strip()
    if not s or s[0] in "([{":
        return ("", [])
    i = s.find("<")
    if i < 0:
        return (s.rsplit("::", 1)[-1], [])
    head = s[:i]
    if head.endswith("::"):
        head = head[:-2]
    # matching '>'
    d = 0
    j = i
    while j < len(s):
        if s[j] == "<":
            d += 1
        elif s[j] == ">":
            d -= 1
            if d == 0:
                break
        j += 1
    inner = s[i + 1:j]
    args = []
    d = 0
    cur = []
    for ch in inner:
        if ch in "<([{":
            d += 1
        elif ch in ">)]}":
            d -= 1
        if ch == "," and d == 0:
            args.append("".join(cur))
            cur = []
        else:
            cur.append(ch)
    if "".join(cur).strip():
        args.append("".join(cur))
    args = [a.strip() for a in args if not re.fullmatch(r"\s*'[a-z_]+\s*", a)]
    return (head.rsplit("::", 1)[-1], args)


def iterator_finiteness(full):
    """-> (True, None) if the receiver type is a finite iterator: a source constructor (slice/Vec/map iterators, Chars, Split, Lines,
    Range over integers, ...) or an adaptor over finite iterators; (False, ctor) naming the constructor that is infinite or unknown.
    Element types (arguments of source constructors) are not inspected."""
    def fin(ty):
        ctor, args = parse_type(_strip_closures(ty))
        if ctor in INFINITE_CTORS:
            return False, ctor
        if ctor in ("Range", "RangeInclusive"):
            if args and re.fullmatch(r"(u|i)(8|16|32|64|128|size)|char", args[0].strip()):
                return True, None
            return False, "%s<%s>" % (ctor, args[0] if args else "?")
        if ctor in SOURCE_CTORS:
            return True, None
        if ctor in ADAPTOR_CTORS:
            seen_iter = False
            for a in args:
                c2, _ = parse_type(_strip_closures(a))
                if c2 in NEUTRAL_ARG_CTORS or (c2 and not c2[0].isupper()):
                    continue
                ok, bad = fin(a)
                if not ok:
                    return False, bad
                seen_iter = True
            return (True, None) if seen_iter else (False, ctor + "<?>")
        return False, ctor or ty[:40]
    return fin(self_type_of(full))


class FnGraph:
    """CFG of one function without cleanup blocks: successors, predecessors, dominators, natural loops."""

    def __init__(self, f):
        self.f = f
        n = len(f.blocks)
        self.succ = [[] for _ in range(n)]
        for bi, b in enumerate(f.blocks):
            if b["cleanup"]:
                continue
            t = b["t"]
            k = t["k"]
            out = []
            if k in ("goto", "drop", "assert"):
                out = [t["t"]]
            elif k == "call":
                out = [t["t"]] if t.get("t") is not None else []
            elif k == "switch":
                out = [x[1] for x in t.get("ts", [])] + [t["o"]]
            self.succ[bi] = [x for x in out if x is not None and not f.blocks[x]["cleanup"]]
        self.pred = [[] for _ in range(n)]
        for a, ss in enumerate(self.succ):
            for b in ss:
                self.pred[b].append(a)
        self.order = []
        seen = set()
        st = [0]
        while st:
            v = st.pop()
            if v in seen:
                continue
            seen.add(v)
            self.order.append(v)
            st.extend(self.succ[v])
        self.reach = seen
        self.dom = None
        self._loops = None

    def dominators(self):
        if self.dom is not None:
            return self.dom
        allb = set(self.order)
        dom = {v: set(allb) for v in self.order}
        dom[0] = {0}
        ch = True
        while ch:
            ch = False
            for v in self.order:
                if v == 0:
                    continue
                ps = [dom[p] for p in self.pred[v] if p in dom]
                nd = (set.intersection(*ps) if ps else set()) | {v}
                if nd != dom[v]:
                    dom[v] = nd
                    ch = True
        self.dom = dom
        return dom

    def loops(self):
        """{head: set(body blocks)} - natural loops, merged per head; irreducible retreating edges are reported as loops of their target."""
        if self._loops is not None:
            return self._loops
        dom = self.dominators()
        loops = {}
        for a in self.order:
            for b in self.succ[a]:
                if b in dom[a]:
                    body = {b}
                    st = [a]
                    while st:
                        v = st.pop()
                        if v in body:
                            continue
                        body.add(v)
                        st.extend(p for p in self.pred[v] if p in dom)
                    loops.setdefault(b, set()).update(body)
        # retreating edges that are not back edges (irreducible control flow): none are produced by rustc for structured code, but fail closed
        for h in self.f.loop_heads():
            if h not in loops and h in self.reach and not self.f.blocks[h]["cleanup"]:
                loops[h] = set(self.order)
        self._loops = loops
        return loops


def _local_of(o):
    """bare local of an operand {mv|cp: [l]} (no projection) else None; a deref of a tracked reference counts as the local."""
    p = o.get("mv") or o.get("cp")
    if p is None:
        return None
    if len(p) == 1:
        return p[0]
    if len(p) == 2 and p[1] == "*":
        return p[0]
    return None


def _kind_of_ty(ty):
    ty = ty.lstrip("&").replace("mut ", "").strip()
    if ty.startswith("core::option::Option") or ty.startswith("std::option::Option") or ty.startswith("Option<"):
        return "opt"
    if ty.startswith("core::result::Result") or ty.startswith("std::result::Result") or ty.startswith("Result<"):
        return "res"
    if ty.startswith("core::ops::control_flow::ControlFlow") or ty.startswith("ControlFlow<"):
        return "cf"
    if ty == "bool":
        return "bool"
    return None


SUCCESS_DISCR = {"opt": 1, "res": 0, "cf": 0, "optres": 1}


class Analysis:
    """Progress edges carry *resource tokens*: which object the step consumes from - ("param", i) / ("upvar", k) of the function itself or
    ("local", l).  A function's summary `consumes[key]` is the set of ("param", i)/("upvar", k) tokens through which EVERY successful return
    has consumed at least one unit.  In a loop only edges count whose resource is not (re-)created inside the loop body."""

    def __init__(self, P, mono):
        self.P = P
        self.graphs = {}
        self.consumes = {}            # fn key -> frozenset(tokens): every success path consumes via each of these
        self.some_ok = {}             # fn key -> frozenset(tokens): ... on every return that can be Some(Ok(..))
        self.notes = {}
        self._edges = {}
        self.rounds = 0
        self._summaries()

    def graph(self, f):
        g = self.graphs.get(f.key)
        if g is None:
            g = self.graphs[f.key] = FnGraph(f)
        return g

    def ret_ty(self, g):
        return g.local_ty(0)

    def callee_infos(self, f, bi):
        out = []
        for ce in f.calls.get(bi, []):
            info = self.P.callees.get(ce["key"]) or {}
            out.append((ce["key"], ce.get("full") or info.get("path") or ce["key"], ce["key"] in self.P.fns))
        return out

    # ------------------------------------------------------------ resources
    def _last_def(self, f, bi, l):
        d = None
        for s in f.blocks[bi]["s"]:
            if s["k"] == "assign" and s["p"] == [l]:
                d = s
        return d

    def resolve_place(self, f, bi, p, depth=0):
        """token of the object a place (used as the receiver / &mut argument of a step) denotes."""
        l = p[0]
        fields = [x["f"] for x in p[1:] if isinstance(x, dict) and "f" in x]
        d = self._last_def(f, bi, l) if depth < 8 else None
        if d is not None and not fields:
            rv = d["rv"]
            if rv["k"] in ("ref", "rawptr"):
                return self.resolve_place(f, bi, rv["p"], depth + 1)
            if rv["k"] == "use" and ("mv" in rv["a"] or "cp" in rv["a"]):
                return self.resolve_place(f, bi, rv["a"].get("mv") or rv["a"].get("cp"), depth + 1)
            if rv["k"] == "cast" and ("mv" in rv["a"] or "cp" in rv["a"]):
                return self.resolve_place(f, bi, rv["a"].get("mv") or rv["a"].get("cp"), depth + 1)
            return ("local", l)
        if 1 <= l <= f.argc:
            if f.is_closure and l == 1 and fields:
                return ("upvar", fields[0])
            return ("param", l - 1)
        return ("local", l)

    def resolve_operand(self, f, bi, o):
        p = o.get("mv") or o.get("cp")
        if p is None:
            return None
        return self.resolve_place(f, bi, p)

    def _agg_ops(self, f, bi, o, want):
        """operands of the tuple/closure aggregate an operand refers to (looking through refs/moves inside block bi)."""
        p = o.get("mv") or o.get("cp")
        for _ in range(8):
            if p is None:
                return None
            d = self._last_def(f, bi, p[0])
            if d is None:
                return None
            rv = d["rv"]
            if rv["k"] == "agg" and rv.get("ak") == want:
                return rv.get("ops") or []
            if rv["k"] in ("ref", "rawptr"):
                p = rv["p"]
            elif rv["k"] == "use":
                p = rv["a"].get("mv") or rv["a"].get("cp")
            else:
                return None
        return None

    def map_token(self, f, bi, g, tok):
        """token of callee g expressed as a token of the caller f at the call in block bi (None if it cannot be followed)."""
        t = f.blocks[bi]["t"]
        args = t.get("args", [])
        rust_call = g.is_closure and len(args) == 2 and "rust-call" in (t.get("fty") or "")
        if tok[0] == "param":
            i = tok[1]
            if rust_call:
                if i == 0:
                    return None
                ops = self._agg_ops(f, bi, args[1], "tuple")
                if ops is None or i - 1 >= len(ops):
                    return None
                return self.resolve_operand(f, bi, ops[i - 1])
            if i < len(args):
                return self.resolve_operand(f, bi, args[i])
            return None
        if tok[0] == "upvar":
            if not args:
                return None
            ops = self._agg_ops(f, bi, args[0], "closure")
            if ops is None or tok[1] >= len(ops):
                return None
            return self.resolve_operand(f, bi, ops[tok[1]])
        return None

    # ------------------------------------------------------------ step classification
    def step_kind(self, f, bi):
        """-> (kind, description, frozenset(tokens in f)) if the call in block bi is a step whose success consumes, else None."""
        t = f.blocks[bi]["t"]
        if t["k"] != "call":
            return None
        infos = self.callee_infos(f, bi)
        if not infos:
            return None
        kinds = []
        toks = None
        for key, full, ws in infos:
            name = method_name(full)
            if ws:
                g = self.P.fns[key]
                if self.consumes.get(key):
                    kind, via, desc = _kind_of_ty(self.ret_ty(g)) or "any", self.consumes[key], "consuming step %s" % g.path
                elif self.some_ok.get(key):
                    kind, via, desc = "optres", self.some_ok[key], "consuming step (when it yields Some(Ok)) %s" % g.path
                else:
                    return None
                mapped = set()
                for tk in via:
                    m = self.map_token(f, bi, g, tk)
                    if m is not None:
                        mapped.add(m)
                if not mapped:
                    self.notes.setdefault((f.key, bi), "the object %s consumes from cannot be identified at this call" % g.path)
                    return None
                kinds.append((kind, desc))
                toks = mapped if toks is None else (toks & mapped)
            elif name in OPTION_STEP_NAMES and ("Iterator" in full or "iter::" in full or "Peekable" in full):
                ok, bad = iterator_finiteness(full)
                if not ok:
                    self.notes.setdefault((f.key, bi), "iterator type contains `%s`, which is not in the finite-iterator table" % bad)
                    return None
                kinds.append(("opt", "step of finite iterator %s" % _strip_closures(self_type_of(full))[:120]))
                r = self.resolve_operand(f, bi, t["args"][0]) if t.get("args") else None
                toks = ({r} if r else set()) if toks is None else (toks & ({r} if r else set()))
            elif name == "read_exact" and "Read" in full:
                kinds.append(("res", "Read::read_exact"))
                r = self.resolve_operand(f, bi, t["args"][0]) if t.get("args") else None
                toks = ({r} if r else set()) if toks is None else (toks & ({r} if r else set()))
            else:
                return None
        ks = set(k for k, _ in kinds)
        if len(ks) != 1 or not toks:
            return None
        return (kinds[0][0], kinds[0][1], frozenset(toks))

    # ------------------------------------------------------------ success edge
    def success_edges(self, f, bi, kind):
        """progress edges [(from, to)] of the step call in block bi, or 'passthrough' if its result is returned unchanged, or None."""
        t = f.blocks[bi]["t"]
        dest = t.get("dest")
        if not dest or len(dest) != 1 or t.get("t") is None:
            return None
        if kind == "any":
            return [(bi, t["t"])]
        tracked = {dest[0]: (kind, True)}
        outer_done = {}
        cur = t["t"]
        for _ in range(60):
            b = f.blocks[cur]
            for s in b["s"]:
                if s["k"] != "assign":
                    continue
                p = s["p"]
                rv = s["rv"]
                tgt = p[0] if len(p) == 1 else None
                new = None
                if rv["k"] == "use":
                    l = _local_of(rv["a"])
                    if l in tracked and "c" not in rv["a"]:
                        new = tracked[l]
                    else:
                        pp = rv["a"].get("mv") or rv["a"].get("cp") or []
                        if len(pp) == 3 and pp[0] in tracked and tracked[pp[0]][0] == "optres" and isinstance(pp[1], dict) and \
                                pp[1].get("name") == "Some" and isinstance(pp[2], dict) and pp[2].get("f") == 0:
                            new = ("res", tracked[pp[0]][1])
                elif rv["k"] in ("ref", "rawptr"):
                    pp = rv["p"]
                    if (len(pp) == 1 or (len(pp) == 2 and pp[1] == "*")) and pp[0] in tracked:
                        new = tracked[pp[0]]
                elif rv["k"] == "discr":
                    pp = rv["p"]
                    if (len(pp) == 1 or (len(pp) == 2 and pp[1] == "*")) and pp[0] in tracked and tracked[pp[0]][0] in SUCCESS_DISCR \
                            and not outer_done.get(pp[0]):
                        k0, pos = tracked[pp[0]]
                        new = ("discr:" + k0, pos)
                elif rv["k"] == "un" and rv.get("op") in ("Not", "!"):
                    l = _local_of(rv["a"])
                    if l in tracked and tracked[l][0] == "bool":
                        new = ("bool", not tracked[l][1])
                if tgt is not None:
                    if new is not None:
                        tracked[tgt] = new
                    elif tgt in tracked and len(p) == 1:
                        del tracked[tgt]
            tt = b["t"]
            k = tt["k"]
            if k == "return":
                if 0 in tracked and tracked[0][1] and tracked[0][0] in ("opt", "res", "optres"):
                    return "passthrough"
                return None
            if k in ("goto", "drop", "assert"):
                cur = tt["t"]
                continue
            if k == "call":
                args = tt.get("args", [])
                l = _local_of(args[0]) if args else None
                d = tt.get("dest")
                infos = self.callee_infos(f, cur)
                names = set(method_name(full) for _, full, _ in infos)
                if l in tracked and d and len(d) == 1 and len(names) == 1 and tt.get("t") is not None:
                    nm = names.pop()
                    k0, pos = tracked[l]
                    new = None
                    if nm == "branch" and k0 in ("opt", "res"):
                        new = ("cf", pos)
                    elif nm in ("is_some", "is_ok") and k0 in ("opt", "res"):
                        new = ("bool", pos)
                    elif nm in ("is_none", "is_err") and k0 in ("opt", "res"):
                        new = ("bool", not pos)
                    elif nm in SAME_POLARITY and k0 in ("opt", "res"):
                        nk = _kind_of_ty(f.local_ty(d[0]))
                        if nk in ("opt", "res"):
                            new = (nk, pos)
                    if new is None:
                        return None
                    tracked[d[0]] = new
                    cur = tt["t"]
                    continue
                # an unrelated call between the step and its test (e.g. building an error message) - only if it cannot touch the tracked value
                if tt.get("t") is not None and not any(_local_of(a) in tracked for a in args):
                    if d and len(d) == 1 and d[0] in tracked:
                        del tracked[d[0]]
                    cur = tt["t"]
                    continue
                return None
            if k == "switch":
                l = _local_of(tt["d"])
                if l not in tracked:
                    return None
                k0, pos = tracked[l]
                if k0 == "bool":
                    want = 1 if pos else 0
                elif k0.startswith("discr:"):
                    sv = SUCCESS_DISCR[k0.split(":", 1)[1]]
                    want = sv if pos else 1 - sv
                else:
                    return None
                edges = []
                listed = set()
                for v, tb in tt.get("ts", []):
                    listed.add(v)
                    if v == want:
                        edges.append((cur, tb))
                if want not in listed and tt.get("o") is not None:
                    edges.append((cur, tt["o"]))
                if k0 == "discr:optres":
                    # Some(..) of an Option<Result<..>> step: progress only if the payload is Ok - keep following on the Some edge
                    if len(edges) != 1:
                        return None
                    for l2, (kk, _) in list(tracked.items()):
                        if kk == "optres":
                            outer_done[l2] = True
                    cur = edges[0][1]
                    continue
                return edges or None
            return None
        return None

    def progress_edges(self, f):
        """({(from,to): (description, tokens)}, [(call block, description, tokens)] passthrough calls) for the step calls of f."""
        out = {}
        passthrough = []
        for bi, b in enumerate(f.blocks):
            if b["cleanup"] or b["t"]["k"] != "call":
                continue
            sk = self.step_kind(f, bi)
            if sk is None:
                continue
            e = self.success_edges(f, bi, sk[0])
            if e == "passthrough":
                passthrough.append((bi, sk[1], sk[2]))
            elif e:
                for x in e:
                    out[x] = (sk[1], sk[2])
            else:
                self.notes.setdefault((f.key, bi), "the result of %s is not tested in a recognised way (?, match, is_some/is_none, while let)" % sk[1])
        return out, passthrough

    # ------------------------------------------------------------ summaries
    def failure_blocks(self, f, nested=False):
        """blocks that put a failure value (Err / None / from_residual; with nested: Some(Err(..))) into the return place."""
        out = set()
        for bi, b in enumerate(f.blocks):
            if b["cleanup"]:
                continue
            errs = set()
            for s in b["s"]:
                if s["k"] == "assign" and len(s["p"]) == 1 and s["rv"]["k"] == "agg" and s["rv"].get("vname") == "Err":
                    errs.add(s["p"][0])
                if s["k"] == "assign" and s["p"] == [0] and s["rv"]["k"] == "agg" and s["rv"].get("vname") in ("Err", "None"):
                    out.add(bi)
                if nested and s["k"] == "assign" and s["p"] == [0] and s["rv"]["k"] == "agg" and s["rv"].get("vname") == "Some":
                    ops = s["rv"].get("ops") or []
                    if len(ops) == 1 and _local_of(ops[0]) in errs:
                        out.add(bi)
            t = b["t"]
            if t["k"] == "call" and t.get("dest") == [0]:
                names = set(method_name(full) for _, full, _ in self.callee_infos(f, bi))
                if names == {"from_residual"}:
                    out.add(bi)
        return out

    def _summary(self, f, nested=False):
        """tokens (param/upvar) through which every successful return of f has consumed."""
        g = self.graph(f)
        prog, passthrough = self.progress_edges(f)
        fail = self.failure_blocks(f, nested)
        cands = set()
        for _, toks in prog.values():
            cands |= set(t for t in toks if t[0] in ("param", "upvar"))
        for _, _, toks in passthrough:
            cands |= set(t for t in toks if t[0] in ("param", "upvar"))
        good = set()
        for c in cands:
            pt_blocks = set(bi for bi, _, toks in passthrough if c in toks)
            seen = set()
            st = [0]
            ok = True
            while st and ok:
                v = st.pop()
                if v in seen:
                    continue
                seen.add(v)
                if v in fail or v in pt_blocks:
                    continue
                if f.blocks[v]["t"]["k"] == "return":
                    ok = False
                    break
                for w in g.succ[v]:
                    e = prog.get((v, w))
                    if e is None or c not in e[1]:
                        st.append(w)
            if ok:
                good.add(c)
        return frozenset(good)

    def _summaries(self):
        changed = True
        while changed and self.rounds < 16:
            changed = False
            self.rounds += 1
            for f in self.P.fns.values():
                if not any(b["t"]["k"] == "return" for b in f.blocks if not b["cleanup"]):
                    continue
                s1 = self._summary(f)
                if s1 != self.consumes.get(f.key, frozenset()):
                    if s1 >= self.consumes.get(f.key, frozenset()):
                        self.consumes[f.key] = s1
                        changed = True
                if not s1 and re.match(r"^(core|std)::option::Option<(core|std)::result::Result<", self.ret_ty(f)):
                    s2 = self._summary(f, nested=True)
                    if s2 > self.some_ok.get(f.key, frozenset()):
                        self.some_ok[f.key] = s2
                        changed = True
        self.notes = {}

    # ------------------------------------------------------------ loops
    def defs_of(self, f):
        d = getattr(f, "_def_blocks", None)
        if d is None:
            d = {}
            for bi, b in enumerate(f.blocks):
                if b["cleanup"]:
                    continue
                for s in b["s"]:
                    if s["k"] == "assign" and len(s["p"]) == 1:
                        d.setdefault(s["p"][0], set()).add(bi)
                t = b["t"]
                if t["k"] == "call" and t.get("dest") and len(t["dest"]) == 1:
                    d.setdefault(t["dest"][0], set()).add(bi)
            f._def_blocks = d
        return d

    def loop_report(self, f):
        """[(head, body, driven, why, drivers)] for every natural loop of f; drivers = descriptions of the progress edges that count."""
        g = self.graph(f)
        self.notes = {k: v for k, v in self.notes.items() if k[0] != f.key}
        prog, _ = self.progress_edges(f)
        defs = self.defs_of(f)
        out = []
        for h, body in sorted(g.loops().items()):
            usable = {}
            recreated = []
            for (a, b), (desc, toks) in prog.items():
                if a not in body:
                    continue
                ok = False
                for tk in toks:
                    if tk[0] in ("param", "upvar") or not (defs.get(tk[1], set()) & body):
                        ok = True
                if ok:
                    usable[(a, b)] = desc
                else:
                    recreated.append(desc)
            seen = set()
            st = [h]
            cyc = False
            while st and not cyc:
                v = st.pop()
                if v in seen:
                    continue
                seen.add(v)
                for w in g.succ[v]:
                    if w not in body or (v, w) in usable:
                        continue
                    if w == h:
                        cyc = True
                        break
                    if w not in seen:
                        st.append(w)
            drivers = sorted(set(usable.values()))
            if not cyc:
                out.append((h, body, True, "every cycle through the loop head passes a progress edge", drivers))
            else:
                notes = sorted(set(n for (k, bi), n in self.notes.items() if k == f.key and bi in body))
                why = "a path from the loop head back to it passes no progress edge"
                if recreated:
                    why += "; steps on an object (re)created inside the loop do not count: " + ", ".join(sorted(set(recreated))[:3])
                if notes:
                    why += "; " + "; ".join(notes[:3])
                out.append((h, body, False, why, drivers))
        return out
