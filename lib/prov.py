"""Intra-procedural provenance of expressions (A3/A4/A10).

prov(expr) answers: from which source places (root local + field path) is the value built, and through
which calls does it pass.  It follows `let` bindings, pattern bindings (if let / match arm / for / closure
parameters bound to the receiver's provenance) and looks through refs, `?`, casts and blocks.
"""
from . import hir as H

IDENTITY_CALLS = {"clone", "to_owned", "cloned", "copied", "as_ref", "as_mut", "as_deref", "as_slice", "into", "borrow",
                  "to_string", "as_inner", "as_str", "as_java_str", "into_inner", "deref", "from", "to_vec", "into_iter", "iter",
                  "collect", "unwrap_or_default", "Some", "Ok", "as_obj", "as_class_name", "as_deref_mut"}


class P:
    __slots__ = ("src", "calls", "place", "const", "ctors")

    def __init__(self, src=(), calls=(), place=False, const=False, ctors=()):
        self.src = set(src)          # {(root_id, root_name, (field, ...))}
        self.calls = set(calls)      # callee names on the way
        self.place = place           # pure place expression (root.field.field)
        self.const = const           # no data dependency at all (literal, None, Vec::new())
        self.ctors = set(ctors)

    def union(self, o):
        return P(self.src | o.src, self.calls | o.calls, False, self.const and o.const, self.ctors | o.ctors)

    def fields(self, root_id=None):
        """First field component of every source (optionally of one root)."""
        return {s[2][0] if s[2] else None for s in self.src if root_id is None or s[0] == root_id}

    def roots(self):
        return {s[1] for s in self.src}

    def show(self):
        if self.const and not self.src:
            return "const(%s)" % ",".join(sorted(self.calls | self.ctors))
        s = ",".join(sorted("%s%s" % (r, "".join("." + f for f in fp)) for (_, r, fp) in self.src))
        c = ",".join(sorted(self.calls))
        return "%s%s" % (s, (" via " + c) if c else "")


class Ctx:
    def __init__(self, root, roots=None, env=None):
        self.root = root                  # body expression (for let / pattern lookups)
        self.roots = dict(roots or {})    # local id -> name: locals treated as sources
        self.env = dict(env or {})        # local id -> P
        self._binders = None
        self._stack = set()

    def binders(self):
        """local id -> (kind, pattern, scrutinee/iter expr, path inside pattern)"""
        if self._binders is None:
            b = {}
            def rec(p, scrut, path, kind):
                k = p.get("k")
                if k == "bind":
                    b.setdefault(p["id"], (kind, scrut, path))
                    if "sub" in p:
                        rec(p["sub"], scrut, path, kind)
                elif k in ("ptuplestruct",):
                    v = p["res"].get("variant")
                    for i, x in enumerate(p["pats"]):
                        # Some(x)/Ok(x) are transparent for provenance
                        rec(x, scrut, path if v in ("Some", "Ok", "Err") else path + ("#%d" % i,), kind)
                elif k == "pstruct":
                    for f in p["fields"]:
                        rec(f["pat"], scrut, path + (f["name"],), kind)
                elif k == "ptuple":
                    for i, x in enumerate(p["pats"]):
                        rec(x, scrut, path + ("%d" % i,), kind)
                elif k == "por":
                    for x in p["pats"]:
                        rec(x, scrut, path, kind)
                elif k in ("pref", "pbox", "pderef", "pguard"):
                    rec(p["pat"], scrut, path, kind)
                elif k == "pslice":
                    for x in p["before"] + p["after"]:
                        rec(x, scrut, path + ("[]",), kind)
                    if p.get("mid"):
                        rec(p["mid"], scrut, path + ("[]",), kind)
            for n in H.walk(self.root):
                k = n.get("k")
                if k == "let" and "init" in n:
                    rec(n["pat"], n["init"], (), "let")
                elif k == "letexpr":
                    rec(n["pat"], n["init"], (), "iflet")
                elif k == "match":
                    for a in n["arms"]:
                        rec(a["pat"], n["scrut"], (), "arm")
                elif k == "for":
                    rec(n["pat"], n["iter"], ("[]",), "for")
            self._binders = b
        return self._binders


def prov(n, ctx, depth=0):
    if depth > 40:
        return P(calls={"<deep>"})
    n = H.peel(n)
    k = n.get("k")
    if k == "path":
        r = n["res"]
        if r.get("r") == "local":
            lid = r["id"]
            if lid in ctx.env:
                return ctx.env[lid]
            if lid in ctx.roots:
                return P(src={(lid, ctx.roots[lid], ())}, place=True)
            if lid in ctx._stack:
                return P(calls={"<cycle>"})
            b = ctx.binders().get(lid)
            if b is None:
                return P(src={(lid, r["name"], ())}, place=True)
            kind, scrut, path = b
            ctx._stack.add(lid)
            try:
                p = prov(scrut, ctx, depth + 1)
            finally:
                ctx._stack.discard(lid)
            if path:
                if p.place:
                    p = P(src={(s[0], s[1], s[2] + path) for s in p.src}, calls=p.calls, place=True)
                else:
                    p = P(p.src, p.calls, False, p.const, p.ctors)
            return p
        if r.get("variant") and not r.get("dk", "").startswith("Ctor(Variant, Fn"):
            return P(const=True, ctors={r["variant"]})
        if r.get("variant"):
            return P(const=True, ctors={r["variant"]})
        if "value" in r:
            return P(const=True, ctors={"const"})
        return P(const=True, ctors={(r.get("path") or "?").rsplit("::", 1)[-1]})
    if k == "lit":
        return P(const=True, ctors={"lit"})
    if k == "field":
        p = prov(n["e"], ctx, depth + 1)
        if p.place:
            return P(src={(s[0], s[1], s[2] + (n["name"],)) for s in p.src}, calls=p.calls, place=True)
        return P(p.src, p.calls | {"." + n["name"]}, False, p.const, p.ctors)
    if k in ("try", "cast", "await"):
        p = prov(n["e"], ctx, depth + 1)
        return P(p.src, p.calls, False if k == "cast" else p.place, p.const, p.ctors)
    if k == "index":
        p = prov(n["e"], ctx, depth + 1)
        q = prov(n["i"], ctx, depth + 1)
        if p.place:
            return P(src={(s[0], s[1], s[2] + ("[]",)) for s in p.src} | q.src, calls=p.calls | q.calls, place=not q.src)
        return p.union(q)
    if k in ("call", "mcall"):
        name = H.callee_name(n)
        c = n.get("callee") or {}
        if k == "call" and c.get("dk", "").startswith("Ctor"):
            out = P(const=True, ctors={name})
            for a in n["args"]:
                out = out.union(prov(a, ctx, depth + 1))
            if not n["args"]:
                return out
            out.const = all(prov(a, ctx, depth + 1).const for a in n["args"])
            if name in ("Some", "Ok") and len(n["args"]) == 1:
                inner = prov(n["args"][0], ctx, depth + 1)
                return P(inner.src, inner.calls, inner.place, inner.const, inner.ctors | {name})
            return out
        args = H.call_args(n)
        recv_p = None
        out = P(const=True)
        out.calls = {name}
        nondata = True
        for i, a in enumerate(args):
            a0 = H.peel(a)
            if a0.get("k") == "closure":
                continue
            p = prov(a, ctx, depth + 1)
            if i == 0:
                recv_p = p
            out = out.union(p)
            out.calls.add(name)
        for a in args:
            a0 = H.peel(a)
            if a0.get("k") == "closure":
                # bind parameters to the receiver's provenance (iterator adaptor idiom)
                env2 = dict(ctx.env)
                base = recv_p or P()
                for prm in a0["params"]:
                    for (i, nm) in H.pat_bindings(prm):
                        env2[i] = P(base.src, base.calls, base.place and len(H.pat_bindings(prm)) == 1 and prm.get("k") == "bind", base.const, base.ctors)
                sub = Ctx(ctx.root, ctx.roots, env2)
                sub._binders = ctx._binders
                sub._stack = ctx._stack
                cp = prov(a0["body"], sub, depth + 1)
                out = out.union(cp)
                out.calls.add(name)
        if not args or all(H.peel(a).get("k") == "closure" for a in args):
            # no data arguments: Vec::new(), Default::default(), IndexMap::new() ...
            out.const = True
        else:
            out.const = False if out.src else all(prov(a, ctx, depth + 1).const for a in args if H.peel(a).get("k") != "closure")
        return out
    if k == "struct":
        out = P(const=True, ctors={(n.get("variant") or (n.get("adt") or "?").rsplit("::", 1)[-1])})
        for f in n["fields"]:
            out = out.union(prov(f["e"], ctx, depth + 1))
        if isinstance(n.get("base"), dict):
            out = out.union(prov(n["base"], ctx, depth + 1))
        out.const = not out.src and not (out.calls - {"new", "default"})
        return out
    if k in ("tuple", "array"):
        out = P(const=True)
        for e in n["es"]:
            out = out.union(prov(e, ctx, depth + 1))
        return out
    if k == "block":
        if "tail" in n:
            return prov(n["tail"], ctx, depth + 1)
        return P(const=True, ctors={"()"})
    if k == "if":
        out = prov(n["then"], ctx, depth + 1)
        if "else" in n:
            out = out.union(prov(n["else"], ctx, depth + 1))
        c = prov(n["cond"], ctx, depth + 1) if H.peel(n["cond"], refs=False).get("k") != "letexpr" else P(const=True)
        o = out.union(P())
        o.calls |= {"<if>"}
        return o
    if k == "match":
        out = None
        for a in n["arms"]:
            if H.diverges(a["body"]):
                continue
            p = prov(a["body"], ctx, depth + 1)
            out = p if out is None else out.union(p)
        return out or P(calls={"<diverges>"})
    if k == "un":
        return prov(n["e"], ctx, depth + 1)
    if k == "bin":
        return prov(n["l"], ctx, depth + 1).union(prov(n["r"], ctx, depth + 1)).union(P(calls={n["op"]}))
    if k == "closure":
        return P(calls={"<closure>"})
    if k == "ret":
        return P(calls={"<return>"})
    if k == "repeat":
        return prov(n["e"], ctx, depth + 1)
    return P(calls={"<%s>" % k})
