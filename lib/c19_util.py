"""C19 helper — bounded abstract interpretation of HIR-lite bodies.

The C19 rules decide "what does this function compute on this (small, abstract) input" instead of
"does the source look like the shape I remember".  `Interp` evaluates the *program text* (the typed HIR
the front end produced) over abstract values: enum variants, tuples, structs, strings/ints/bools,
vectors/deques/sets, lazy iterators, closures, opaque atoms.  Helpers of the same crate are followed
(by resolved def key, whatever their name or position), the std combinators on Option / Result /
Vec / VecDeque / HashSet / Iterator / str / Formatter the crate uses are given their documented meaning,
and everything else is *unknown*: `Unknown` is raised and the rule fails closed (`R.unrecognised`).
Nothing of /repo is compiled or run; equivalent shapes (match / if let / let-else / `?`, iterator chain /
for loop, helper extracted / inlined, locals renamed, statements reordered) give the same abstract result.
"""
import re
import sys

from . import hir as H

sys.setrecursionlimit(max(sys.getrecursionlimit(), 20000))


class Unknown(Exception):
    """A construct or library call without a model (the rule that asked fails closed)."""


class Return(Exception):
    def __init__(self, v):
        self.v = v


class BreakX(Exception):
    def __init__(self, label, v):
        self.label = label
        self.v = v


class ContinueX(Exception):
    def __init__(self, label):
        self.label = label


# ------------------------------------------------------------------------------------ values
UNIT = ("t", [])


def V(name, *payload):
    return ("v", name, list(payload))


NONE = V("None")


def SOME(x):
    return V("Some", x)


def OK(x):
    return V("Ok", x)


def ERR(x=None):
    return V("Err", x if x is not None else ("sym", "error"))


def S(s):
    return ("s", s)


def I(n):
    return ("i", n)


def Bv(b):
    return ("b", bool(b))


def sym(t):
    return ("sym", t)


def T_(*xs):
    return ("t", list(xs))


class St:
    """struct value (mutable, shared through references like the place it stands for)"""

    def __init__(self, adt, fields, variant=None):
        self.adt = adt
        self.f = dict(fields)
        self.variant = variant

    @property
    def short(self):
        return (self.adt or "?").split("<")[0].rsplit("::", 1)[-1]


class Lst:
    """Vec / VecDeque / slice / array"""

    def __init__(self, items=None):
        self.items = list(items or [])


class SetV:
    """HashSet / BTreeSet (membership by structural equality)"""

    def __init__(self, items=None):
        self.items = []
        for x in items or []:
            self.insert(x)

    def insert(self, x):
        k = key(x)
        if any(key(y) == k for y in self.items):
            return False
        self.items.append(x)
        return True

    def remove(self, x):
        k = key(x)
        for i, y in enumerate(self.items):
            if key(y) == k:
                del self.items[i]
                return True
        return False

    def contains(self, x):
        k = key(x)
        return any(key(y) == k for y in self.items)


class MapV:
    def __init__(self):
        self.ks = []
        self.vs = []

    def find(self, k):
        kk = key(k)
        for i, y in enumerate(self.ks):
            if key(y) == kk:
                return i
        return -1


class Clo:
    def __init__(self, node, env):
        self.node = node
        self.env = env


class Coro:
    """async block / async fn body: runs when awaited"""

    def __init__(self, node, env):
        self.node = node
        self.env = env


class Py:
    """callable provided by the rule (an abstract closure argument / an interpreted boundary)"""

    def __init__(self, fn, name="<py>"):
        self.fn = fn
        self.name = name


class FnRef:
    """a function item / constructor used as a value (`.map(Ok)`, `.flat_map(Tree::breadth_first)`)"""

    def __init__(self, res):
        self.res = res


class Fmt:
    """core::fmt::Formatter: collects what is written"""

    def __init__(self):
        self.buf = []

    def text(self):
        return "".join(self.buf)


class FArgs:
    """fmt::Arguments: literal pieces and (value, static type, trait) placeholders"""

    def __init__(self, parts):
        self.parts = parts


def key(v):
    """hashable structural identity of a value"""
    if isinstance(v, tuple):
        k = v[0]
        if k == "v":
            return ("v", v[1], tuple(key(x) for x in v[2]))
        if k == "t":
            return ("t", tuple(key(x) for x in v[1]))
        return v
    if isinstance(v, St):
        return ("st", v.short, v.variant, tuple(sorted((a, key(b)) for a, b in v.f.items())))
    if isinstance(v, Lst):
        return ("l", tuple(key(x) for x in v.items))
    if isinstance(v, SetV):
        return ("set", tuple(sorted((key(x) for x in v.items), key=repr)))
    return ("obj", id(v))


def show(v, depth=0):
    if depth > 8:
        return "…"
    if isinstance(v, tuple):
        k = v[0]
        if k == "v":
            return v[1] + ("(%s)" % ", ".join(show(x, depth + 1) for x in v[2]) if v[2] else "")
        if k == "t":
            return "(%s)" % ", ".join(show(x, depth + 1) for x in v[1])
        if k == "s":
            return repr(v[1])
        if k in ("i", "b"):
            return str(v[1])
        return "<%s>" % (v[1],)
    if isinstance(v, St):
        return "%s{%s}" % (v.short, ", ".join("%s: %s" % (a, show(b, depth + 1)) for a, b in v.f.items()))
    if isinstance(v, Lst):
        return "[%s]" % ", ".join(show(x, depth + 1) for x in v.items)
    if isinstance(v, SetV):
        return "{%s}" % ", ".join(show(x, depth + 1) for x in v.items)
    return "<%s>" % type(v).__name__


def deep(v):
    """Clone::clone"""
    if isinstance(v, tuple):
        if v[0] == "v":
            return ("v", v[1], [deep(x) for x in v[2]])
        if v[0] == "t":
            return ("t", [deep(x) for x in v[1]])
        return v
    if isinstance(v, St):
        return St(v.adt, {a: deep(b) for a, b in v.f.items()}, v.variant)
    if isinstance(v, Lst):
        return Lst([deep(x) for x in v.items])
    if isinstance(v, SetV):
        return SetV([deep(x) for x in v.items])
    return v


def is_v(v, *names):
    return isinstance(v, tuple) and v[0] == "v" and (not names or v[1] in names)


def is_sym(v):
    return isinstance(v, tuple) and v[0] == "sym"


def truth(v, what="condition"):
    if isinstance(v, tuple) and v[0] == "b":
        return v[1]
    raise Unknown("undecidable %s: %s" % (what, show(v)))


# ------------------------------------------------------------------------------------ iterators
STOP = object()


class It:
    def next(self):
        raise NotImplementedError

    def next_back(self):
        raise Unknown("iterator is not double-ended here")


class ListIt(It):
    def __init__(self, items):
        self.items = list(items)
        self.i = 0
        self.j = len(self.items)

    def next(self):
        if self.i >= self.j:
            return STOP
        x = self.items[self.i]
        self.i += 1
        return x

    def next_back(self):
        if self.i >= self.j:
            return STOP
        self.j -= 1
        return self.items[self.j]

    def remaining(self):
        return self.j - self.i


class FnIt(It):
    def __init__(self, nxt, back=None):
        self._n = nxt
        self._b = back

    def next(self):
        return self._n()

    def next_back(self):
        if self._b is None:
            raise Unknown("iterator is not double-ended here")
        return self._b()


class PeekIt(It):
    """core::iter::Peekable: one element of look-ahead"""

    def __init__(self, inner):
        self.inner = inner
        self.buf = []           # [] or [element | STOP]

    def peek(self):
        if not self.buf:
            self.buf.append(self.inner.next())
        return self.buf[0]

    def next(self):
        if self.buf:
            return self.buf.pop()
        return self.inner.next()

    def next_back(self):
        if self.buf and self.buf[0] is STOP:
            return STOP
        x = self.inner.next_back()
        if x is STOP and self.buf:
            return self.buf.pop()
        return x


# ------------------------------------------------------------------------------------ helpers
_GEN = re.compile(r"::<[^<>]*(?:<[^<>]*(?:<[^<>]*>[^<>]*)*>[^<>]*)*>")
LOG_MACROS = {"trace", "debug", "info", "warn", "$crate::log", "log"}
DERIVES = {"Clone", "PartialEq", "Eq", "Debug", "Hash", "PartialOrd", "Ord", "Default", "Serialize", "Deserialize", "Copy"}
IDENTITY = {"clone", "to_owned", "to_string", "into", "as_ref", "as_mut", "borrow", "borrow_mut", "as_deref", "as_deref_mut",
            "as_str", "as_slice", "as_mut_slice", "to_vec", "deref", "deref_mut", "cloned", "copied", "by_ref", "into_boxed_str",
            "into_owned", "as_mut_str", "into_string", "to_str", "as_bytes", "into_future", "into_inner", "as_mut_vec", "into_vec",
            "into_boxed_slice", "make_contiguous", "from_char"}


def norm_path(p):
    p = p or ""
    while True:
        q = _GEN.sub("", p)
        if q == p:
            return q
        p = q


def base_ty(ty):
    """`&'a mut foo::Bar<'_, T>` -> `foo::Bar`"""
    t = (ty or "").strip()
    while t.startswith("&"):
        t = t[1:].lstrip()
        if t.startswith("'"):
            t = t.split(" ", 1)[1] if " " in t else ""
        if t.startswith("mut "):
            t = t[4:]
    return t.split("<")[0].strip()


def has_mac(n, names):
    m = n.get("mac")
    return bool(m) and any(x in names for x in m)


def is_derived(body):
    """derive-generated impl method (its nodes are expanded from the derive macro)"""
    root = body["body"]
    cnt = 0
    for x in H.walk(root):
        m = x.get("mac")
        if m and any(d in m for d in DERIVES):
            return True
        cnt += 1
        if cnt > 6:
            break
    return False


class Interp:
    def __init__(self, crate, hooks=None, budget=400000, max_depth=40):
        self.c = crate
        self.hooks = hooks or {}          # callee def key / callee path -> fn(interp, args, node) -> value
        self.budget = budget
        self.steps = 0
        self.depth = 0
        self.max_depth = max_depth
        self._fa = None

    # ------------------------------------------------------------------ entry points
    def run(self, body, args):
        """value of calling `body` with `args` (async fns are driven to completion)"""
        return self.force(self.call_body(body, args))

    def force(self, v):
        while isinstance(v, Coro):
            v = self.run_coro(v)
        return v

    def call_body(self, body, args):
        if self.depth >= self.max_depth:
            raise Unknown("call depth exceeded at %s" % body.get("path"))
        env = {}
        if len(body["params"]) != len(args):
            raise Unknown("arity mismatch calling %s" % body.get("path"))
        for p, a in zip(body["params"], args):
            if not self.match_pat(p, a, env):
                raise Unknown("parameter pattern of %s refutes its argument" % body.get("path"))
        self.depth += 1
        try:
            return self.ev(body["body"], env)
        except Return as r:
            return r.v
        finally:
            self.depth -= 1

    def run_coro(self, co):
        self.depth += 1
        try:
            return self.ev(co.node["body"], co.env)
        except Return as r:
            return r.v
        finally:
            self.depth -= 1

    def apply(self, f, args):
        if isinstance(f, Py):
            return f.fn(self, args)
        if isinstance(f, Clo):
            ps = f.node["params"]
            if len(ps) != len(args):
                # Fn-trait sugar passes one tuple for several parameters
                if len(args) == 1 and isinstance(args[0], tuple) and args[0][0] == "t" and len(args[0][1]) == len(ps):
                    args = args[0][1]
                else:
                    raise Unknown("closure arity mismatch")
            for p, a in zip(ps, args):
                if not self.match_pat(p, a, f.env):
                    raise Unknown("closure parameter pattern refutes its argument")
            self.depth += 1
            try:
                if self.depth > self.max_depth * 3:
                    raise Unknown("closure depth exceeded")
                return self.ev(f.node["body"], f.env)
            except Return as r:
                return r.v
            finally:
                self.depth -= 1
        if isinstance(f, FnRef):
            return self.call_res(f.res, args, None, None, None)
        raise Unknown("call of a non-callable value %s" % show(f))

    # ------------------------------------------------------------------ patterns
    def match_pat(self, p, v, env):
        k = p.get("k")
        if k == "wild":
            return True
        if k == "bind":
            if "sub" in p and not self.match_pat(p["sub"], v, env):
                return False
            env[p["id"]] = v
            return True
        if k in ("pref", "pbox", "pderef"):
            return self.match_pat(p["pat"], v, env)
        if k == "por":
            for alt in p["pats"]:
                e2 = {}
                if self.match_pat(alt, v, e2):
                    env.update(e2)
                    return True
            return False
        if is_sym(v):
            raise Unknown("pattern %s inspects an opaque value %s" % (H.render_pat(p), show(v)))
        if k == "ptuple":
            if not (isinstance(v, tuple) and v[0] == "t"):
                raise Unknown("tuple pattern on %s" % show(v))
            pats = p["pats"]
            if p.get("ddpos") is not None:
                dd = p["ddpos"]
                pats = pats[:dd] + [{"k": "wild"}] * (len(v[1]) - len(pats)) + pats[dd:]
            if len(pats) != len(v[1]):
                raise Unknown("tuple pattern arity")
            return all(self.match_pat(sp, sv, env) for sp, sv in zip(pats, v[1]))
        if k in ("ptuplestruct", "pstruct"):
            res = p["res"]
            want = res.get("variant")
            if isinstance(v, St):
                if want is not None and v.variant != want:
                    return False
                if k == "pstruct":
                    for f in p["fields"]:
                        if f["name"] not in v.f:
                            raise Unknown("pattern field %s not in %s" % (f["name"], show(v)))
                        if not self.match_pat(f["pat"], v.f[f["name"]], env):
                            return False
                    return True
                pats = p["pats"]
                vals = [v.f[str(i)] for i in range(len(v.f))] if all(str(i) in v.f for i in range(len(v.f))) else None
                if vals is None or len(vals) != len(pats):
                    raise Unknown("tuple-struct pattern on %s" % show(v))
                return all(self.match_pat(sp, sv, env) for sp, sv in zip(pats, vals))
            if not is_v(v):
                raise Unknown("variant pattern %s on %s" % (H.render_pat(p), show(v)))
            if want is None:
                want = (res.get("adt") or res.get("path") or "?").rsplit("::", 1)[-1]
            if v[1] != want:
                return False
            if k == "pstruct":
                raise Unknown("struct-variant pattern on tuple-variant value")
            pats = p["pats"]
            payload = v[2]
            if p.get("ddpos") is not None:
                dd = p["ddpos"]
                pats = pats[:dd] + [{"k": "wild"}] * (len(payload) - len(pats)) + pats[dd:]
            if len(pats) != len(payload):
                raise Unknown("variant pattern arity %s on %s" % (H.render_pat(p), show(v)))
            return all(self.match_pat(sp, sv, env) for sp, sv in zip(pats, payload))
        if k == "pexpr":
            e = p["e"]
            if e.get("variant"):
                if isinstance(v, St):
                    return v.variant == e["variant"]
                if not is_v(v):
                    raise Unknown("variant pattern on %s" % show(v))
                return v[1] == e["variant"] and not v[2]
            pv = e.get("v") if "t" in e else e.get("value")
            if isinstance(pv, dict) and "raw_le" in pv:
                pv = pv["raw_le"]                         # a newtype around an integer (e.g. a code point), evaluated by the front end
            if pv is None:
                raise Unknown("constant pattern without value")
            if isinstance(v, tuple) and v[0] in ("i", "s", "b"):
                if v[0] == "s" and isinstance(pv, int) and not isinstance(pv, bool) and len(v[1]) == 1:
                    return ord(v[1]) == pv            # a character against a code-point constant (JavaCodePoint / u32 consts)
                return v[1] == pv
            raise Unknown("literal pattern on %s" % show(v))
        if k == "prange":
            if not (isinstance(v, tuple) and v[0] in ("i", "s")):
                raise Unknown("range pattern on %s" % show(v))
            val = lambda e: (e.get("v") if "t" in e else e.get("value"))
            lo = val(p["lo"]) if p.get("lo") else None
            hi = val(p["hi"]) if p.get("hi") else None
            x = v[1]
            if lo is not None and x < lo:
                return False
            if hi is not None and (x > hi or (x == hi and not p["incl"])):
                return False
            return True
        if k == "pslice":
            if not isinstance(v, Lst):
                raise Unknown("slice pattern on %s" % show(v))
            before, after, mid = p["before"], p["after"], p.get("mid")
            n = len(v.items)
            if mid is None:
                if n != len(before) + len(after):
                    return False
            elif n < len(before) + len(after):
                return False
            for sp, sv in zip(before, v.items[:len(before)]):
                if not self.match_pat(sp, sv, env):
                    return False
            if after:
                for sp, sv in zip(after, v.items[n - len(after):]):
                    if not self.match_pat(sp, sv, env):
                        return False
            if mid is not None:
                if not self.match_pat(mid, Lst(v.items[len(before):n - len(after)]), env):
                    return False
            return True
        raise Unknown("pattern kind %s" % k)

    # ------------------------------------------------------------------ places
    def place(self, n, env):
        """(get, set) of a place expression"""
        n = H.peel(n, refs=True, semi=False, blocks=False)
        k = n.get("k")
        if k == "path" and n["res"].get("r") == "local":
            i = n["res"]["id"]

            def get():
                if i not in env:
                    raise Unknown("unbound local %s" % n["res"].get("name"))
                return env[i]

            def set_(v):
                env[i] = v
            return get, set_
        if k == "field":
            g, _ = self.place(n["e"], env)
            name = n["name"]

            def get():
                return self.field(g(), name, n)

            def set_(v):
                o = g()
                if isinstance(o, St):
                    o.f[name] = v
                elif isinstance(o, tuple) and o[0] == "t" and name.isdigit():
                    o[1][int(name)] = v
                else:
                    raise Unknown("assignment to a field of %s" % show(o))
            return get, set_
        if k == "index":
            g, _ = self.place(n["e"], env)
            iv = self.ev(n["i"], env)

            def get():
                return self.index(g(), iv)

            def set_(v):
                o = g()
                if isinstance(o, Lst) and iv[0] == "i":
                    o.items[iv[1]] = v
                else:
                    raise Unknown("indexed assignment")
            return get, set_
        if k == "un" and n.get("op") == "deref":
            return self.place(n["e"], env)
        # a temporary: readable, not writable
        val = self.ev(n, env)

        def set_(v):
            raise Unknown("write through a temporary / reference value: %s" % H.render(n))
        return (lambda: val), set_

    def field(self, o, name, n=None):
        if isinstance(o, St):
            if name not in o.f:
                raise Unknown("no field %s in %s" % (name, show(o)))
            return o.f[name]
        if isinstance(o, tuple) and o[0] == "t" and name.isdigit() and int(name) < len(o[1]):
            return o[1][int(name)]
        if is_sym(o):
            return sym("%s.%s" % (o[1], name))
        raise Unknown("field %s of %s" % (name, show(o)))

    def index(self, o, iv):
        if isinstance(o, Lst) and isinstance(iv, tuple) and iv[0] == "i":
            if 0 <= iv[1] < len(o.items):
                return o.items[iv[1]]
            raise Unknown("index out of bounds (panic)")
        if isinstance(o, Lst) and isinstance(iv, St) and (iv.adt or "").startswith("core::ops::range::Range"):
            n = len(o.items)
            lo = iv.f.get("start", I(0))
            hi = iv.f.get("end", I(n))
            if lo[0] == "i" and hi[0] == "i":
                h = hi[1] + (1 if "Inclusive" in iv.adt else 0)
                if 0 <= lo[1] <= h <= n:
                    return Lst(o.items[lo[1]:h])
                raise Unknown("slice out of bounds (panic)")
        if isinstance(o, MapV):
            i = o.find(iv)
            if i >= 0:
                return o.vs[i]
            raise Unknown("map index of a missing key (panic)")
        if isinstance(o, tuple) and o[0] == "s" and isinstance(iv, St) and (iv.adt or "").startswith("core::ops::range::Range"):
            bs = o[1].encode()
            lo = iv.f.get("start", I(0))
            hi = iv.f.get("end", I(len(bs)))
            if lo[0] == "i" and hi[0] == "i":
                h = hi[1] + (1 if "Inclusive" in iv.adt else 0)
                if 0 <= lo[1] <= h <= len(bs):
                    try:
                        return S(bs[lo[1]:h].decode())
                    except UnicodeDecodeError:
                        raise Unknown("str slice inside a character (panic)")
                raise Unknown("str slice out of bounds (panic)")
        raise Unknown("index of %s" % show(o))

    # ------------------------------------------------------------------ expressions
    def tick(self):
        self.steps += 1
        if self.steps > self.budget:
            raise Unknown("evaluation budget exceeded (unbounded loop?)")

    def ev(self, n, env):
        self.tick()
        k = n.get("k")
        if n.get("mac") and has_mac(n, LOG_MACROS) and k in ("block", "if", "semi", "call", "match", "let"):
            return UNIT                                   # log::trace!/warn!/...: no effect on the computation
        if k == "path":
            r = n["res"]
            if r.get("r") == "local":
                if r["id"] not in env:
                    raise Unknown("unbound local %s" % r.get("name"))
                return env[r["id"]]
            dk = r.get("dk", "")
            if r.get("variant") and (dk.startswith("Ctor") or dk == "Variant"):
                if "Fn" in dk and "Const" not in dk:
                    return FnRef(r)
                return V(r["variant"])
            if "value" in r and r["value"] is not None:
                v = r["value"]
                if isinstance(v, bool):
                    return Bv(v)
                if isinstance(v, int):
                    return I(v)
                if isinstance(v, str):
                    return S(v)
            if dk in ("Fn", "AssocFn") or dk.startswith("Ctor"):
                if dk.startswith("Ctor") and "Const" in dk:
                    return St(r.get("adt"), {})
                return FnRef(r)
            if dk in ("Const", "AssocConst", "Static") or dk.startswith("Static"):
                cb = self.c.by_key.get(r.get("key"))
                if cb is not None and cb.get("body") is not None and not cb.get("params"):
                    return self.ev(cb["body"], {})          # initializer of a const of the crate the front end did not flatten
            return sym(r.get("path") or "?")
        if k == "lit":
            lit = n.get("lit") or {}
            t = lit.get("t")
            if t == "int":
                return I(lit["v"])
            if t in ("str", "char"):
                return S(lit["v"])
            if t == "bool":
                return Bv(lit["v"])
            if t == "bytes":
                return Lst([I(x) for x in lit["v"]])
            return sym(H.render(n))
        if k == "ref":
            return self.ev(n["e"], env)
        if k == "semi":
            self.ev(n["e"], env)
            return UNIT
        if k == "block":
            return self.block(n, env)
        if k == "let":
            self.let(n, env)
            return UNIT
        if k == "field":
            return self.field(self.ev(n["e"], env), n["name"], n)
        if k == "mcall":
            return self.mcall(n, env)
        if k == "call":
            return self.call(n, env)
        if k == "struct":
            fields = {}
            if isinstance(n.get("base"), dict):
                b = self.ev(n["base"], env)
                if not isinstance(b, St):
                    raise Unknown("struct base %s" % show(b))
                fields.update(b.f)
            for f in n["fields"]:
                fields[f["name"]] = self.ev(f["e"], env)
            return St(n.get("adt"), fields, n.get("variant"))
        if k == "tuple":
            return ("t", [self.ev(x, env) for x in n["es"]])
        if k == "array":
            return Lst([self.ev(x, env) for x in n["es"]])
        if k == "if":
            e2 = env
            if self.cond(n["cond"], e2):
                return self.ev(n["then"], e2)
            return self.ev(n["else"], env) if "else" in n else UNIT
        if k == "match":
            sv = self.ev(n["scrut"], env)
            for a in n["arms"]:
                e2 = {}
                if not self.match_pat(a["pat"], sv, e2):
                    continue
                env.update(e2)
                if "guard" in a and not self.cond(a["guard"], env):
                    continue
                return self.ev(a["body"], env)
            raise Unknown("no arm of `match %s` accepts %s" % (H.render(n["scrut"])[:60], show(sv)))
        if k == "try":
            v = self.force(self.ev(n["e"], env))
            if is_v(v, "Ok", "Some", "Continue"):
                return v[2][0] if v[2] else UNIT
            if is_v(v, "Err", "None", "Break"):
                raise Return(v)
            raise Unknown("`?` on %s" % show(v))
        if k == "await":
            return self.force(self.ev(n["e"], env))
        if k == "closure":
            if (n.get("kind") or "").startswith("Coroutine"):
                return Coro(n, env)
            return Clo(n, env)
        if k == "ret":
            if "e" not in n:
                raise Return(UNIT)
            raise Return(self.ev(n["e"], env))
        if k == "break":
            raise BreakX(n.get("label"), self.ev(n["e"], env) if "e" in n else UNIT)
        if k == "continue":
            raise ContinueX(n.get("label"))
        if k == "loop":
            return self.loop(n, env)
        if k == "for":
            return self.for_(n, env)
        if k == "bin":
            return self.bin(n, env)
        if k == "un":
            if n["op"] == "deref":
                return self.ev(n["e"], env)
            v = self.ev(n["e"], env)
            if n["op"] == "!":
                if v[0] == "b":
                    return Bv(not v[1])
                raise Unknown("`!` on %s" % show(v))
            if n["op"] == "neg" and v[0] == "i":
                return I(-v[1])
            raise Unknown("unary %s on %s" % (n["op"], show(v)))
        if k == "assign":
            v = self.ev(n["r"], env)
            _, st = self.place(n["l"], env)
            st(v)
            return UNIT
        if k == "assignop":
            g, st = self.place(n["l"], env)
            op = n["op"]
            if len(op) > 1 and op.endswith("=") and op not in ("==", "!=", "<=", ">="):
                op = op[:-1]                              # `+=` is recorded with or without the `=`
            st(self.arith(op, g(), self.ev(n["r"], env)))
            return UNIT
        if k == "index":
            return self.index(self.ev(n["e"], env), self.ev(n["i"], env))
        if k == "cast":
            return self.ev(n["e"], env)
        if k == "letexpr":
            return Bv(self.cond(n, env))
        if k == "constblock":
            return self.ev(n["body"], env)
        raise Unknown("expression kind `%s`" % k)

    def cond(self, c, env):
        """truth of an `if` / guard condition; `let` conditions (also in && chains) bind into env"""
        c0 = H.peel(c, refs=False, semi=False, blocks=False)
        if c0.get("k") == "letexpr":
            v = self.ev(c0["init"], env)
            e2 = {}
            if self.match_pat(c0["pat"], v, e2):
                env.update(e2)
                return True
            return False
        if c0.get("k") == "bin" and c0["op"] == "&&" and any(x.get("k") == "letexpr" for x in H.walk(c0)):
            return self.cond(c0["l"], env) and self.cond(c0["r"], env)
        return truth(self.ev(c, env), "condition `%s`" % H.render(c)[:80])

    def block(self, n, env):
        fa = self.format_block(n, env)
        if fa is not None:
            return fa
        try:
            for s in n["stmts"]:
                self.ev(s, env)
            if "tail" in n:
                return self.ev(n["tail"], env)
            return UNIT
        except BreakX as b:
            if n.get("label") is not None and b.label == n["label"]:
                return b.v
            raise

    def let(self, n, env):
        if "init" not in n:
            return
        v = self.ev(n["init"], env)
        e2 = {}
        if self.match_pat(n["pat"], v, e2):
            env.update(e2)
            return
        if "els" in n:
            self.ev(n["els"], env)
            raise Unknown("`let … else` block does not diverge")
        raise Unknown("irrefutable `let %s` refuted by %s" % (H.render_pat(n["pat"]), show(v)))

    def loop(self, n, env):
        label = n.get("label")
        while True:
            self.tick()
            try:
                self.ev(n["body"], env)
            except BreakX as b:
                if b.label is None or b.label == label:
                    return b.v
                raise
            except ContinueX as c:
                if c.label is None or c.label == label:
                    continue
                raise

    def for_(self, n, env):
        it = self.iterate(self.ev(n["iter"], env))
        label = n.get("label")
        while True:
            self.tick()
            x = it.next()
            if x is STOP:
                return UNIT
            if not self.match_pat(n["pat"], x, env):
                raise Unknown("`for` pattern refuted")
            try:
                self.ev(n["body"], env)
            except BreakX as b:
                if b.label is None or b.label == label:
                    return UNIT
                raise
            except ContinueX as c:
                if c.label is None or c.label == label:
                    continue
                raise

    def bin(self, n, env):
        op = n["op"]
        if op == "&&":
            if not truth(self.ev(n["l"], env), "operand of &&"):
                return Bv(False)
            return Bv(truth(self.ev(n["r"], env), "operand of &&"))
        if op == "||":
            if truth(self.ev(n["l"], env), "operand of ||"):
                return Bv(True)
            return Bv(truth(self.ev(n["r"], env), "operand of ||"))
        l = self.ev(n["l"], env)
        r = self.ev(n["r"], env)
        return self.arith(op, l, r)

    def arith(self, op, l, r):
        if op in ("==", "!="):
            return Bv((self.eq(l, r)) == (op == "=="))
        if isinstance(l, tuple) and isinstance(r, tuple) and l[0] == r[0] and l[0] in ("i", "s"):
            a, b = l[1], r[1]
            if op in ("<", "<=", ">", ">="):
                return Bv({"<": a < b, "<=": a <= b, ">": a > b, ">=": a >= b}[op])
            if l[0] == "i":
                if op in ("+", "-", "*", "&", "|", "^"):
                    return I({"+": a + b, "-": a - b, "*": a * b, "&": a & b, "|": a | b, "^": a ^ b}[op])
                if op in ("/", "%") and b != 0:
                    return I(a // b if op == "/" else a % b)
                if op in ("<<", ">>") and 0 <= b < 128:
                    return I(a << b if op == "<<" else a >> b)
            if l[0] == "s" and op == "+":
                return S(a + b)
        if isinstance(l, tuple) and isinstance(r, tuple) and l[0] == "b" and r[0] == "b" and op in ("&", "|", "^"):
            return Bv({"&": l[1] and r[1], "|": l[1] or r[1], "^": l[1] != r[1]}[op])
        if op in ("<", "<=", ">", ">=") and is_v(l) and is_v(r):
            raise Unknown("ordering of enum values")
        raise Unknown("operator %s on %s, %s" % (op, show(l), show(r)))

    def eq(self, a, b):
        return key(a) == key(b)

    # ------------------------------------------------------------------ format_args!
    def _fa_index(self):
        if self._fa is None:
            self._fa = {}
            for fa in self.c.raw.get("format_args", []):
                self._fa.setdefault(fa["sp"], fa)
        return self._fa

    def format_block(self, n, env):
        """`{ let args = (&a, &b); let args = [Argument::new_display(args.0), ..]; Arguments::new(template, &args) }`
        -> FArgs through the FormatArgs template recorded by the front end (pieces + argument order)."""
        stmts = n["stmts"]
        tail = H.peel(n.get("tail") or {}, refs=False) if "tail" in n else None
        if not (len(stmts) == 2 and all(s.get("k") == "let" and "init" in s for s in stmts) and tail and tail.get("k") == "call"):
            return None
        if not norm_path((tail.get("callee") or {}).get("path")).startswith("core::fmt::Arguments"):
            return None
        rec = self._fa_index().get(tail["sp"]) or self._fa_index().get(n.get("sp"))
        if rec is None:
            raise Unknown("format_args! template not recorded for %s" % tail.get("sp"))
        init = stmts[0]["init"]
        nodes = init["es"] if init.get("k") == "tuple" else [init]
        if len(nodes) != len(rec["args"]):
            raise Unknown("format_args! argument count differs from its template")
        vals = [(self.ev(x, env), x.get("ty")) for x in nodes]
        parts = []
        for p in rec["pieces"]:
            if isinstance(p, dict):
                v, ty = vals[p["arg"]]
                parts.append((v, ty, p.get("trait")))
            else:
                parts.append(p)
        return FArgs(parts)

    def display(self, v, ty=None, trait="Display"):
        """text `v` prints as (`{}`) — in-crate Display impls are followed"""
        if trait not in (None, "Display"):
            return "⟨%s %s⟩" % (trait, show(v))
        if isinstance(v, tuple):
            if v[0] == "s":
                return v[1]
            if v[0] == "i":
                return str(v[1])
            if v[0] == "b":
                return "true" if v[1] else "false"
            if v[0] == "sym":
                return "⟨%s⟩" % v[1]
            if is_v(v, "Borrowed", "Owned") and len(v[2]) == 1:       # Cow
                return self.display(v[2][0], None, trait)
        if isinstance(v, FArgs):
            return self.render_fargs(v)
        adt = v.adt.split("<")[0] if isinstance(v, St) and v.adt else base_ty(ty)
        if adt:
            cands =[b for b in self.c.bodies if b.get("name") == "fmt" and "core::fmt::Display" in (b.get("impl_trait") or "")
                     and (b.get("impl_ty") or "").split("<")[0] == adt]
            if len(cands) == 1:
                f = Fmt()
                r = self.force(self.call_body(cands[0], [v, f]))
                if is_v(r, "Err"):
                    raise Unknown("Display impl returned Err")
                return f.text()
        raise Unknown("no Display model for %s" % show(v))

    def render_fargs(self, fa):
        out = []
        for p in fa.parts:
            if isinstance(p, str):
                out.append(p)
            else:
                out.append(self.display(p[0], p[1], p[2]))
        return "".join(out)

    # ------------------------------------------------------------------ calls
    def call(self, n, env):
        c = n.get("callee")
        if c is None:
            f = self.ev(n["f"], env)
            args = [self.ev(a, env) for a in n["args"]]
            return self.apply(f, args)
        if c.get("r") == "local":
            if c["id"] not in env:
                raise Unknown("unbound local callee %s" % c.get("name"))
            args = [self.ev(a, env) for a in n["args"]]
            return self.apply(env[c["id"]], args)
        dk = c.get("dk", "")
        if dk.startswith("Ctor"):
            name = c.get("variant")
            if name == "Err":
                try:
                    return ERR(self.ev(n["args"][0], env))
                except Unknown:
                    return ERR()
            args = [self.ev(a, env) for a in n["args"]]
            if (c.get("adt") or "").startswith("alloc::borrow::Cow") and len(args) == 1:
                return args[0]                            # Cow<str> derefs to the str it holds
            if name:
                return V(name, *args)
            return St(c.get("adt"), {str(i): a for i, a in enumerate(args)})
        if has_mac(n, ("vec",)) and not self.c.by_key.get(c.get("key")):
            arr = [x for x in H.walk(n) if x.get("k") in ("array", "repeat")]
            if arr and arr[0]["k"] == "array":
                return Lst([self.ev(x, env) for x in arr[0]["es"]])
            if arr:
                raise Unknown("vec![x; n]")
        if has_mac(n, ("anyhow", "format_err")) and not has_mac(n, ("bail", "ensure")):
            return sym("anyhow-error")
        return self.call_res(c, None, n, env, None)

    def mcall(self, n, env):
        c = n.get("callee") or {}
        return self.call_res(c, None, n, env, n["recv"])

    def call_res(self, c, args, n, env, recv_node):
        """dispatch: rule hook -> same-crate body (by resolved key) -> std model"""
        def argv():
            nonlocal args
            if args is None:
                nodes = ([recv_node] if recv_node is not None else []) + list(n["args"])
                args = [self.ev(a, env) for a in nodes]
            return args
        keys = [c.get("inst_key"), c.get("key"), c.get("path")]
        for kk in keys:
            if kk and kk in self.hooks:
                return self.hooks[kk](self, argv(), n)
        dk = c.get("dk", "")
        if dk.startswith("Ctor"):
            a = argv()
            if (c.get("adt") or "").startswith("alloc::borrow::Cow") and len(a) == 1:
                return a[0]
            if c.get("variant"):
                return V(c["variant"], *a)
            return St(c.get("adt"), {str(i): x for i, x in enumerate(a)})
        for kk in keys[:2]:
            body = self.c.by_key.get(kk) if kk else None
            if body is not None and body.get("body") is not None:
                if is_derived(body):
                    break
                return self.call_body(body, argv())
        name = (n["name"] if n is not None and n.get("k") == "mcall" else None) or norm_path(c.get("path")).rsplit("::", 1)[-1]
        path = norm_path(c.get("path"))
        a = argv()
        if c.get("trait") and a and isinstance(a[0], St) and a[0].adt and (c.get("trait") or "").split("::")[0] == self.c.name:
            # trait method of the crate called through a type parameter: the impl for the value's type
            adt = a[0].adt.split("<")[0]
            cands = [b for b in self.c.bodies if b.get("name") == name and c["trait"] in (b.get("impl_trait") or "")
                     and (b.get("impl_ty") or "").split("<")[0] == adt and b.get("body") is not None]
            if len(cands) == 1:
                return self.call_body(cands[0], a)
        place = None
        if n is not None:
            pn = recv_node if recv_node is not None else (n["args"][0] if n.get("args") else None)
            if pn is not None:
                place = lambda: self.place(pn, env)
        return self.std(name, path, a, n, place)

    # ------------------------------------------------------------------ std models
    def default_of(self, ty):
        t = (ty or "").strip()
        if t.startswith(("alloc::vec::Vec<", "alloc::collections::vec_deque::VecDeque<")):
            return Lst()
        if t.startswith(("std::collections::hash::set::HashSet<", "alloc::collections::btree::set::BTreeSet<")):
            return SetV()
        if t.startswith(("std::collections::hash::map::HashMap<", "alloc::collections::btree::map::BTreeMap<")):
            return MapV()
        if t in ("alloc::string::String", "&str"):
            return S("")
        if t == "bool":
            return Bv(False)
        if t in ("u8", "u16", "u32", "u64", "usize", "i8", "i16", "i32", "i64", "isize", "u128", "i128"):
            return I(0)
        if t.startswith("core::option::Option<"):
            return NONE
        if t == "()":
            return UNIT
        cands = [b for b in self.c.bodies if b.get("name") == "default" and "default::Default" in (b.get("impl_trait") or "")
                 and (b.get("impl_ty") or "").split("<")[0] == base_ty(t) and b.get("body") is not None]
        if len(cands) == 1:
            return self.force(self.call_body(cands[0], []))
        raise Unknown("Default::default() of %s" % t)

    def iterate(self, v):
        if isinstance(v, It):
            return v
        if isinstance(v, Lst):
            return ListIt(v.items)
        if isinstance(v, SetV):
            return ListIt(v.items)
        if isinstance(v, MapV):
            return ListIt([("t", [a, b]) for a, b in zip(v.ks, v.vs)])
        if is_v(v, "Some"):
            return ListIt(v[2])
        if is_v(v, "None"):
            return ListIt([])
        if isinstance(v, St):
            adt = (v.adt or "").split("<")[0]
            if adt.startswith("core::ops::range::Range") and "start" in v.f and "end" in v.f:
                lo, hi = v.f["start"], v.f["end"]
                if lo[0] == "i" and hi[0] == "i":
                    return ListIt([I(x) for x in range(lo[1], hi[1] + (1 if "Inclusive" in adt else 0))])
            cands = [b for b in self.c.bodies if b.get("name") == "next" and "iterator::Iterator" in (b.get("impl_trait") or "")
                     and (b.get("impl_ty") or "").split("<")[0] == adt]
            if len(cands) == 1:
                body = cands[0]

                def nxt():
                    self.tick()
                    r = self.force(self.call_body(body, [v]))
                    if is_v(r, "Some"):
                        return r[2][0]
                    if is_v(r, "None"):
                        return STOP
                    raise Unknown("Iterator::next returned %s" % show(r))
                return FnIt(nxt)
        raise Unknown("iteration over %s" % show(v))

    def collect(self, it, ty):
        t = (ty or "").strip()
        items = []

        def drain(stop_on=None):
            while True:
                self.tick()
                x = it.next()
                if x is STOP:
                    return None
                if stop_on and is_v(x, *stop_on):
                    return x
                items.append(x)
        wrap = None
        if t.startswith("core::result::Result<"):
            wrap = ("Ok", "Err")
            t = t[len("core::result::Result<"):]
        elif t.startswith("core::option::Option<"):
            wrap = ("Some", "None")
            t = t[len("core::option::Option<"):]
        if wrap:
            bad = drain(stop_on=(wrap[1],))
            if bad is not None:
                return bad
            for i, x in enumerate(items):
                if not is_v(x, wrap[0]):
                    raise Unknown("collect into %s over %s" % (ty, show(x)))
                items[i] = x[2][0]
        else:
            drain()
        if t.startswith(("alloc::vec::Vec<", "alloc::collections::vec_deque::VecDeque<", "alloc::boxed::Box<[")):
            out = Lst(items)
        elif t.startswith(("std::collections::hash::set::HashSet<", "alloc::collections::btree::set::BTreeSet<")):
            out = SetV(items)
        elif t.startswith(("std::collections::hash::map::HashMap<", "alloc::collections::btree::map::BTreeMap<")):
            out = MapV()
            for x in items:
                self.map_insert(out, x[1][0], x[1][1])
        elif t.startswith(("alloc::string::String", "java_string::owned::JavaString")):
            out = S("".join(self.display(x) for x in items))
        elif t.startswith("()"):
            out = UNIT
        else:
            raise Unknown("collect into %s" % ty)
        return V(wrap[0], out) if wrap else out

    def map_insert(self, m, k, v):
        i = m.find(k)
        if i >= 0:
            old = m.vs[i]
            m.vs[i] = v
            return SOME(old)
        m.ks.append(k)
        m.vs.append(v)
        return NONE

    def std(self, name, path, a, n, place):
        ty = n.get("ty") if n is not None else None
        r0 = a[0] if a else None
        # ---- static constructors / conversions
        if path.endswith(("Vec::new", "Vec::with_capacity", "VecDeque::new", "VecDeque::with_capacity")):
            return Lst()
        if path.endswith(("HashSet::new", "HashSet::with_capacity", "BTreeSet::new")):
            return SetV()
        if path.endswith(("HashMap::new", "HashMap::with_capacity", "BTreeMap::new")):
            return MapV()
        if path.endswith("String::new"):
            return S("")
        if path.endswith(("Box::pin", "Box::new", "Pin::new", "Rc::new", "Arc::new", "convert::identity", "hint::black_box")):
            return a[0]
        if path.endswith(("Default::default", "::default")) and not a:
            return self.default_of(ty)
        if path.endswith("mem::take") and place:
            g, st = place()
            old = g()
            st(self.default_of_value(old, n))
            return old
        if path.endswith("mem::replace") and place:
            g, st = place()
            old = g()
            st(a[1])
            return old
        if path.endswith("mem::swap"):
            raise Unknown("mem::swap")
        if path.endswith("mem::drop") or name == "drop":
            return UNIT
        if path.endswith(("fmt::format", "must_use")) and a:
            if isinstance(a[0], FArgs):
                return S(self.render_fargs(a[0]))
            return a[0]
        if path.startswith("core::fmt::Arguments") and name in ("from_str", "new_const"):
            if r0 is not None and r0[0] == "s":
                return FArgs([r0[1]])
            if isinstance(r0, Lst):
                return FArgs([x[1] for x in r0.items])
        if path.endswith("RangeInclusive::new") and len(a) == 2:
            return St("core::ops::range::RangeInclusive", {"start": a[0], "end": a[1]})
        if path.endswith(("::from_ref", "::from_mut")) and ("slice::" in path or "array::" in path) and len(a) == 1:
            return Lst([a[0]])
        if path.endswith(("iter::empty",)):
            return ListIt([])
        if path.endswith(("iter::once",)):
            return ListIt([a[0]])
        if name in ("from", "from_iter") and len(a) == 1 and path.endswith(("From::from", "FromIterator::from_iter", "::from")):
            if isinstance(r0, It):
                return self.collect(r0, ty)
            if isinstance(r0, (Lst, SetV)) and (ty or "").startswith(("std::collections::hash::set", "alloc::collections::btree::set")):
                return SetV(r0.items)
            return r0
        if not a:
            raise Unknown("call of %s" % (path or name))

        # ---- identity-like adaptors
        if name in IDENTITY and len(a) == 1:
            if name == "clone" or name == "to_owned" or name == "to_vec" or name == "cloned":
                return deep(r0) if not isinstance(r0, It) else r0
            if name == "to_string" and not (isinstance(r0, tuple) and r0[0] == "s"):
                return S(self.display(r0, (n or {}).get("recv", {}).get("ty") if n else None))
            if name == "into" and isinstance(r0, It):
                return self.collect(r0, ty)
            if name == "into" and isinstance(r0, Lst) and (ty or "").startswith(("std::collections::hash::set", "alloc::collections::btree::set")):
                return SetV(r0.items)
            return r0
        if name in ("into_iter", "iter", "iter_mut") and len(a) == 1:
            return self.iterate(r0)
        if name == "drain" and isinstance(r0, Lst):
            if len(a) == 2 and isinstance(a[1], St) and (a[1].adt or "").startswith("core::ops::range::RangeFull"):
                it = ListIt(r0.items)
                r0.items[:] = []
                return it
            raise Unknown("drain of a sub-range")

        # ---- Formatter
        if isinstance(r0, Fmt):
            if name in ("write_str", "pad", "write_char") and len(a) == 2 and a[1][0] == "s":
                r0.buf.append(a[1][1])
                return OK(UNIT)
            if name == "write_fmt" and isinstance(a[1], FArgs):
                r0.buf.append(self.render_fargs(a[1]))
                return OK(UNIT)
            raise Unknown("Formatter::%s" % name)
        if name == "fmt" and len(a) == 2 and isinstance(a[1], Fmt):
            tr = "Display" if "Display" in path else ("Debug" if "Debug" in path else None)
            if tr is None and n is not None:
                tr = "Display" if "Display" in ((n.get("callee") or {}).get("trait") or "") else "Debug"
            a[1].buf.append(self.display(r0, None, tr))
            return OK(UNIT)
        if name in ("write_str", "write_fmt") and len(a) == 2 and isinstance(r0, tuple) and r0[0] == "s" and place:
            g, st = place()
            st(S(g()[1] + (self.render_fargs(a[1]) if isinstance(a[1], FArgs) else a[1][1])))
            return OK(UNIT)

        # ---- Option
        if is_v(r0, "Some", "None"):
            r = self.std_option(name, a, n, place, ty)
            if r is not None:
                return r
        # ---- Result
        if is_v(r0, "Ok", "Err"):
            r = self.std_result(name, a, n, ty)
            if r is not None:
                return r
        # ---- iterators
        if isinstance(r0, It):
            r = self.std_iter(name, a, n, ty)
            if r is not None:
                return r
        # ---- Vec / VecDeque / slices
        if isinstance(r0, Lst):
            r = self.std_list(name, a, n, ty)
            if r is not None:
                return r
        if isinstance(r0, SetV):
            r = self.std_set(name, a, n, ty)
            if r is not None:
                return r
        if isinstance(r0, MapV):
            r = self.std_map(name, a, n, ty)
            if r is not None:
                return r
        if isinstance(r0, tuple) and r0[0] == "s":
            r = self.std_str(name, a, n, ty, place)
            if r is not None:
                return r
        if isinstance(r0, tuple) and r0[0] in ("i", "b"):
            if name in ("eq", "ne") and len(a) == 2:
                return Bv(self.eq(r0, a[1]) == (name == "eq"))
            if name == "then" and r0[0] == "b":
                return SOME(self.apply(a[1], [])) if r0[1] else NONE
            if name == "then_some" and r0[0] == "b":
                return SOME(a[1]) if r0[1] else NONE
            if name in ("saturating_sub", "wrapping_sub") and a[1][0] == "i":
                return I(max(0, r0[1] - a[1][1]))
            if name in ("min", "max") and a[1][0] == "i":
                return I(min(r0[1], a[1][1]) if name == "min" else max(r0[1], a[1][1]))
            if name in ("checked_add", "checked_sub", "checked_mul") and r0[0] == "i" and len(a) == 2 and a[1][0] == "i":
                rt = ((n.get("recv") or {}).get("ty") or (n.get("recv") or {}).get("tya") or "").lstrip("&").replace("mut ", "").strip()
                rng = {"u8": (0, 2**8 - 1), "u16": (0, 2**16 - 1), "u32": (0, 2**32 - 1), "u64": (0, 2**64 - 1), "usize": (0, 2**64 - 1),
                       "i8": (-2**7, 2**7 - 1), "i16": (-2**15, 2**15 - 1), "i32": (-2**31, 2**31 - 1), "i64": (-2**63, 2**63 - 1),
                       "isize": (-2**63, 2**63 - 1)}.get(rt)
                if rng is not None:
                    v = r0[1] + a[1][1] if name == "checked_add" else (r0[1] - a[1][1] if name == "checked_sub" else r0[1] * a[1][1])
                    return SOME(I(v)) if rng[0] <= v <= rng[1] else NONE
        if isinstance(r0, (Clo, Py, FnRef)) and name in ("call", "call_mut", "call_once") and len(a) == 2:
            return self.apply(r0, a[1][1] if a[1][0] == "t" else [a[1]])
        if name in ("eq", "ne") and len(a) == 2:
            return Bv(self.eq(r0, a[1]) == (name == "eq"))
        if isinstance(r0, St) and name in ("next", "next_back", "map", "filter", "collect", "for_each", "find", "chain", "rev", "enumerate",
                                           "flat_map", "filter_map", "count", "last", "any", "all", "fold", "take", "skip", "zip"):
            return self.std(name, path, [self.iterate(r0)] + a[1:], n, place)
        raise Unknown("no model for `%s` on %s" % (path or name, show(r0)[:80]))

    def default_of_value(self, old, n):
        if isinstance(old, Lst):
            return Lst()
        if isinstance(old, SetV):
            return SetV()
        if isinstance(old, MapV):
            return MapV()
        if is_v(old, "Some", "None"):
            return NONE
        if isinstance(old, tuple) and old[0] == "s":
            return S("")
        if isinstance(old, tuple) and old[0] == "i":
            return I(0)
        if isinstance(old, tuple) and old[0] == "b":
            return Bv(False)
        raise Unknown("mem::take of %s" % show(old))

    def std_option(self, name, a, n, place, ty):
        o = a[0]
        some = o[1] == "Some"
        x = o[2][0] if some else None
        if name == "is_some":
            return Bv(some)
        if name == "is_none":
            return Bv(not some)
        if name in ("unwrap", "expect", "unwrap_unchecked"):
            if some:
                return x
            raise Unknown("unwrap of None (panic)")
        if name == "unwrap_or":
            return x if some else a[1]
        if name == "unwrap_or_else":
            return x if some else self.apply(a[1], [])
        if name == "unwrap_or_default":
            return x if some else self.default_of(ty)
        if name == "map":
            return SOME(self.apply(a[1], [x])) if some else NONE
        if name == "inspect":
            if some:
                self.apply(a[1], [x])
            return o
        if name == "and_then":
            return self.apply(a[1], [x]) if some else NONE
        if name == "and":
            return a[1] if some else NONE
        if name == "or":
            return o if some else a[1]
        if name == "or_else":
            return o if some else self.apply(a[1], [])
        if name == "xor":
            b = a[1]
            if some != is_v(b, "Some"):
                return o if some else b
            return NONE
        if name == "map_or":
            return self.apply(a[2], [x]) if some else a[1]
        if name == "map_or_else":
            return self.apply(a[2], [x]) if some else self.apply(a[1], [])
        if name == "filter":
            return o if some and truth(self.apply(a[1], [x]), "filter predicate") else NONE
        if name == "is_some_and":
            return Bv(some and truth(self.apply(a[1], [x]), "predicate"))
        if name == "is_none_or":
            return Bv((not some) or truth(self.apply(a[1], [x]), "predicate"))
        if name in ("ok_or", "context"):
            return OK(x) if some else ERR(a[1] if name == "ok_or" else None)
        if name in ("ok_or_else", "with_context"):
            if some:
                return OK(x)
            try:
                return ERR(self.apply(a[1], []))
            except Unknown:
                return ERR()
        if name == "flatten":
            return x if some else NONE
        if name == "zip":
            return SOME(T_(x, a[1][2][0])) if some and is_v(a[1], "Some") else NONE
        if name == "unzip":
            return T_(SOME(x[1][0]), SOME(x[1][1])) if some else T_(NONE, NONE)
        if name == "transpose":
            if not some:
                return OK(NONE)
            if is_v(x, "Ok"):
                return OK(SOME(x[2][0]))
            return x
        if name == "take" and place:
            _, st = place()
            st(NONE)
            return o
        if name == "replace" and place:
            _, st = place()
            st(SOME(a[1]))
            return o
        if name == "insert" and place:
            _, st = place()
            st(SOME(a[1]))
            return a[1]
        if name in ("get_or_insert_with", "get_or_insert") and place:
            if some:
                return x
            v = self.apply(a[1], []) if name.endswith("with") else a[1]
            _, st = place()
            st(SOME(v))
            return v
        if name == "as_slice":
            return Lst([x] if some else [])
        return None

    def std_result(self, name, a, n, ty):
        o = a[0]
        ok = o[1] == "Ok"
        x = o[2][0] if o[2] else UNIT
        if name == "is_ok":
            return Bv(ok)
        if name == "is_err":
            return Bv(not ok)
        if name == "ok":
            return SOME(x) if ok else NONE
        if name == "err":
            return NONE if ok else SOME(x)
        if name in ("unwrap", "expect"):
            if ok:
                return x
            raise Unknown("unwrap of Err (panic)")
        if name == "map":
            return OK(self.apply(a[1], [x])) if ok else o
        if name in ("map_err", "context", "with_context", "or_else"):
            if ok:
                return o
            if name == "or_else":
                return self.apply(a[1], [x])
            return ERR(sym("error"))
        if name == "and_then":
            return self.apply(a[1], [x]) if ok else o
        if name == "unwrap_or":
            return x if ok else a[1]
        if name == "unwrap_or_else":
            return x if ok else self.apply(a[1], [x])
        if name == "unwrap_or_default":
            return x if ok else self.default_of(ty)
        if name == "is_ok_and":
            return Bv(ok and truth(self.apply(a[1], [x]), "predicate"))
        if name == "transpose":
            if not ok:
                return SOME(o)
            if is_v(x, "Some"):
                return SOME(OK(x[2][0]))
            return NONE
        if name in ("branch",):
            return V("Continue", x) if ok else V("Break", o)
        return None

    def std_iter(self, name, a, n, ty):
        it = a[0]
        ap = self.apply
        if name == "next":
            x = it.next()
            return NONE if x is STOP else SOME(x)
        if name == "next_back":
            x = it.next_back()
            return NONE if x is STOP else SOME(x)
        if name == "map":
            f = a[1]
            wrap = lambda g: (lambda: (lambda x: STOP if x is STOP else ap(f, [x]))(g()))
            return FnIt(wrap(it.next), wrap(it.next_back))
        if name == "inspect":
            f = a[1]

            def nx():
                x = it.next()
                if x is not STOP:
                    ap(f, [x])
                return x
            return FnIt(nx)
        if name in ("filter", "filter_map", "map_while"):
            f = a[1]

            def mk(g):
                def nx():
                    while True:
                        self.tick()
                        x = g()
                        if x is STOP:
                            return STOP
                        r = ap(f, [x])
                        if name == "filter":
                            if truth(r, "filter predicate"):
                                return x
                        else:
                            if is_v(r, "Some"):
                                return r[2][0]
                            if not is_v(r, "None"):
                                raise Unknown("filter_map closure returned %s" % show(r))
                            if name == "map_while":
                                return STOP
                return nx
            return FnIt(mk(it.next), mk(it.next_back))
        if name in ("flat_map", "flatten"):
            f = a[1] if name == "flat_map" else None
            cur = [None]

            def nx():
                while True:
                    self.tick()
                    if cur[0] is not None:
                        x = cur[0].next()
                        if x is not STOP:
                            return x
                        cur[0] = None
                    o = it.next()
                    if o is STOP:
                        return STOP
                    cur[0] = self.iterate(ap(f, [o]) if f is not None else o)
            return FnIt(nx)
        if name == "chain":
            other = self.iterate(a[1])
            st = [0]

            def nx():
                if st[0] == 0:
                    x = it.next()
                    if x is not STOP:
                        return x
                    st[0] = 1
                return other.next()

            def bk():
                x = other.next_back()
                if x is not STOP:
                    return x
                return it.next_back()
            return FnIt(nx, bk)
        if name == "rev":
            return FnIt(it.next_back, it.next)
        if name == "enumerate":
            cnt = [0]

            def nx():
                x = it.next()
                if x is STOP:
                    return STOP
                cnt[0] += 1
                return T_(I(cnt[0] - 1), x)
            return FnIt(nx)
        if name == "zip":
            other = self.iterate(a[1])

            def nx():
                x = it.next()
                if x is STOP:
                    return STOP
                y = other.next()
                if y is STOP:
                    return STOP
                return T_(x, y)
            return FnIt(nx)
        if name in ("take", "skip") and a[1][0] == "i":
            cnt = [a[1][1]]
            if name == "take":
                def nx():
                    if cnt[0] <= 0:
                        return STOP
                    cnt[0] -= 1
                    return it.next()
            else:
                def nx():
                    while cnt[0] > 0:
                        cnt[0] -= 1
                        if it.next() is STOP:
                            return STOP
                    return it.next()
            return FnIt(nx)
        if name in ("take_while", "skip_while"):
            f = a[1]
            flag = [False]

            def nx():
                while True:
                    self.tick()
                    x = it.next()
                    if x is STOP:
                        return STOP
                    if name == "take_while":
                        if flag[0] or not truth(ap(f, [x]), "predicate"):
                            flag[0] = True
                            return STOP
                        return x
                    if flag[0] or not truth(ap(f, [x]), "predicate"):
                        flag[0] = True
                        return x
            return FnIt(nx)
        if name == "peekable":
            return it if isinstance(it, PeekIt) else PeekIt(it)
        if name == "fuse":
            return it
        if isinstance(it, PeekIt) and name in ("peek", "peek_mut"):
            x = it.peek()
            return NONE if x is STOP else SOME(x)
        if isinstance(it, PeekIt) and name in ("next_if", "next_if_eq") and len(a) == 2:
            x = it.peek()
            if x is STOP:
                return NONE
            hit = self.eq(x, a[1]) if name == "next_if_eq" else truth(ap(a[1], [x]), "next_if predicate")
            if hit:
                it.next()
                return SOME(x)
            return NONE
        if name == "collect":
            return self.collect(it, ty)
        if name == "for_each":
            while True:
                self.tick()
                x = it.next()
                if x is STOP:
                    return UNIT
                ap(a[1], [x])
        if name == "try_for_each":
            while True:
                self.tick()
                x = it.next()
                if x is STOP:
                    return OK(UNIT) if (ty or "").startswith("core::result") else SOME(UNIT)
                r = ap(a[1], [x])
                if is_v(r, "Err", "None", "Break"):
                    return r
        if name in ("find", "position", "any", "all", "find_map", "rfind"):
            f = a[1]
            i = 0
            g = it.next_back if name == "rfind" else it.next
            while True:
                self.tick()
                x = g()
                if x is STOP:
                    return {"find": NONE, "rfind": NONE, "find_map": NONE, "position": NONE, "any": Bv(False), "all": Bv(True)}[name]
                r = ap(f, [x])
                if name == "find_map":
                    if is_v(r, "Some"):
                        return r
                    if not is_v(r, "None"):
                        raise Unknown("find_map closure returned %s" % show(r))
                else:
                    t = truth(r, "predicate")
                    if name in ("find", "rfind") and t:
                        return SOME(x)
                    if name == "position" and t:
                        return SOME(I(i))
                    if name == "any" and t:
                        return Bv(True)
                    if name == "all" and not t:
                        return Bv(False)
                i += 1
        if name in ("count", "last"):
            cnt, last = 0, None
            while True:
                self.tick()
                x = it.next()
                if x is STOP:
                    break
                cnt += 1
                last = x
            return I(cnt) if name == "count" else (SOME(last) if cnt else NONE)
        if name == "nth" and a[1][0] == "i":
            x = STOP
            for _ in range(a[1][1] + 1):
                x = it.next()
                if x is STOP:
                    return NONE
            return SOME(x)
        if name == "fold":
            acc = a[1]
            while True:
                self.tick()
                x = it.next()
                if x is STOP:
                    return acc
                acc = ap(a[2], [acc, x])
        if name == "try_fold":
            acc = a[1]
            while True:
                self.tick()
                x = it.next()
                if x is STOP:
                    return OK(acc) if (ty or "").startswith("core::result") else SOME(acc)
                r = ap(a[2], [acc, x])
                if is_v(r, "Err", "None", "Break"):
                    return r
                if not is_v(r, "Ok", "Some", "Continue"):
                    raise Unknown("try_fold closure returned %s" % show(r))
                acc = r[2][0]
        if name == "len" and isinstance(it, ListIt):
            return I(it.remaining())
        if name == "size_hint":
            raise Unknown("size_hint")
        return None

    def std_list(self, name, a, n, ty):
        l = a[0]
        xs = l.items
        if name in ("push", "push_back"):
            xs.append(a[1])
            return UNIT
        if name == "push_front":
            xs.insert(0, a[1])
            return UNIT
        if name in ("pop", "pop_back"):
            return SOME(xs.pop()) if xs else NONE
        if name == "pop_front":
            return SOME(xs.pop(0)) if xs else NONE
        if name in ("first", "front", "first_mut", "front_mut"):
            return SOME(xs[0]) if xs else NONE
        if name in ("last", "back", "last_mut", "back_mut"):
            return SOME(xs[-1]) if xs else NONE
        if name in ("get", "get_mut") and a[1][0] == "i":
            return SOME(xs[a[1][1]]) if 0 <= a[1][1] < len(xs) else NONE
        if name == "len":
            return I(len(xs))
        if name == "is_empty":
            return Bv(not xs)
        if name == "clear":
            xs[:] = []
            return UNIT
        if name in ("reserve", "reserve_exact", "shrink_to_fit"):
            return UNIT
        if name == "reverse":
            xs.reverse()
            return UNIT
        if name == "truncate" and a[1][0] == "i":
            del xs[a[1][1]:]
            return UNIT
        if name == "insert" and a[1][0] == "i":
            xs.insert(a[1][1], a[2])
            return UNIT
        if name in ("remove", "swap_remove") and a[1][0] == "i":
            if not 0 <= a[1][1] < len(xs):
                raise Unknown("remove out of bounds (panic)")
            if name == "remove":
                x = xs.pop(a[1][1])
                return SOME(x) if "VecDeque" in ((n.get("callee") or {}).get("path") or "") else x
            x = xs[a[1][1]]
            xs[a[1][1]] = xs[-1]
            xs.pop()
            return x
        if name in ("extend", "extend_from_slice", "append"):
            src = a[1]
            it = self.iterate(src)
            while True:
                self.tick()
                x = it.next()
                if x is STOP:
                    break
                xs.append(x)
            if name == "append" and isinstance(src, Lst):
                src.items[:] = []
            return UNIT
        if name in ("retain", "retain_mut"):
            keep = []
            for x in list(xs):
                self.tick()
                if truth(self.apply(a[1], [x]), "retain predicate"):
                    keep.append(x)
            xs[:] = keep
            return UNIT
        if name == "contains":
            return Bv(any(self.eq(x, a[1]) for x in xs))
        if name in ("split_first", "split_last"):
            if not xs:
                return NONE
            return SOME(T_(xs[0], Lst(xs[1:]))) if name == "split_first" else SOME(T_(xs[-1], Lst(xs[:-1])))
        if name == "concat":
            out = []
            for x in xs:
                out.extend(x.items)
            return Lst(out)
        if name == "join" and len(a) == 2 and a[1][0] == "s":
            return S(a[1][1].join(self.display(x) for x in xs))
        if name in ("next", "map", "filter", "collect", "for_each", "find", "chain", "rev", "enumerate", "flat_map", "filter_map",
                    "count", "any", "all", "fold", "position"):
            return self.std_iter(name, [ListIt(xs)] + a[1:], n, ty)
        return None

    def std_set(self, name, a, n, ty):
        s = a[0]
        if name == "insert":
            return Bv(s.insert(a[1]))
        if name == "remove":
            return Bv(s.remove(a[1]))
        if name == "take":
            for y in s.items:
                if self.eq(y, a[1]):
                    s.remove(y)
                    return SOME(y)
            return NONE
        if name == "contains":
            return Bv(s.contains(a[1]))
        if name == "len":
            return I(len(s.items))
        if name == "is_empty":
            return Bv(not s.items)
        if name == "clear":
            s.items[:] = []
            return UNIT
        if name == "extend":
            it = self.iterate(a[1])
            while True:
                self.tick()
                x = it.next()
                if x is STOP:
                    return UNIT
                s.insert(x)
        if name == "retain":
            s.items[:] = [x for x in list(s.items) if truth(self.apply(a[1], [x]), "retain predicate")]
            return UNIT
        if name in ("reserve",):
            return UNIT
        return None

    def std_map(self, name, a, n, ty):
        m = a[0]
        if name == "insert":
            return self.map_insert(m, a[1], a[2])
        if name in ("get", "get_mut"):
            i = m.find(a[1])
            return SOME(m.vs[i]) if i >= 0 else NONE
        if name == "contains_key":
            return Bv(m.find(a[1]) >= 0)
        if name == "remove":
            i = m.find(a[1])
            if i < 0:
                return NONE
            m.ks.pop(i)
            return SOME(m.vs.pop(i))
        if name == "len":
            return I(len(m.ks))
        if name == "is_empty":
            return Bv(not m.ks)
        if name == "keys":
            return ListIt(m.ks)
        if name in ("values", "values_mut", "into_values"):
            return ListIt(m.vs)
        return None

    def std_str(self, name, a, n, ty, place):
        s = a[0][1]
        arg = a[1] if len(a) > 1 else None
        sv = arg[1] if isinstance(arg, tuple) and arg[0] == "s" else None
        if name == "split" and sv is not None and sv != "":
            return ListIt([S(x) for x in s.split(sv)])
        if name == "rsplit" and sv is not None and sv != "":
            return ListIt([S(x) for x in reversed(s.split(sv))])
        if name == "splitn" and len(a) == 3 and a[1][0] == "i" and a[2][0] == "s":
            return ListIt([S(x) for x in s.split(a[2][1], a[1][1] - 1)])
        if name == "rsplitn" and len(a) == 3 and a[1][0] == "i" and a[2][0] == "s":
            return ListIt([S(x) for x in reversed(s.rsplit(a[2][1], a[1][1] - 1))])
        if name == "split_once" and sv is not None:
            i = s.find(sv)
            return NONE if i < 0 else SOME(T_(S(s[:i]), S(s[i + len(sv):])))
        if name == "rsplit_once" and sv is not None:
            i = s.rfind(sv)
            return NONE if i < 0 else SOME(T_(S(s[:i]), S(s[i + len(sv):])))
        if name == "matches" and sv is not None and sv != "":
            return ListIt([S(sv)] * s.count(sv))
        if name == "len":
            return I(len(s.encode()))
        if name == "is_empty":
            return Bv(not s)
        if name == "starts_with" and sv is not None:
            return Bv(s.startswith(sv))
        if name == "ends_with" and sv is not None:
            return Bv(s.endswith(sv))
        if name == "contains" and sv is not None:
            return Bv(sv in s)
        if name == "replace" and len(a) == 3 and sv is not None and a[2][0] == "s":
            return S(s.replace(sv, a[2][1]))
        if name == "trim":
            return S(s.strip())
        if name == "trim_end":
            return S(s.rstrip())
        if name == "trim_start":
            return S(s.lstrip())
        if name in ("trim_matches", "trim_start_matches", "trim_end_matches") and sv is not None and sv != "":
            t = s
            if name != "trim_end_matches":
                while t.startswith(sv):
                    t = t[len(sv):]
            if name != "trim_start_matches":
                while t.endswith(sv):
                    t = t[:len(t) - len(sv)]
            return S(t)
        if name == "find" and sv is not None:
            i = s.find(sv)
            return NONE if i < 0 else SOME(I(len(s[:i].encode())))
        if name == "rfind" and sv is not None:
            i = s.rfind(sv)
            return NONE if i < 0 else SOME(I(len(s[:i].encode())))
        if name == "split_at" and arg is not None and arg[0] == "i":
            bs = s.encode()
            try:
                return T_(S(bs[:arg[1]].decode()), S(bs[arg[1]:].decode()))
            except UnicodeDecodeError:
                raise Unknown("split_at inside a character")
        if name == "chars":
            return ListIt([S(ch) for ch in s])
        if name == "to_lowercase" or name == "to_ascii_lowercase":
            return S(s.lower())
        if name == "to_uppercase" or name == "to_ascii_uppercase":
            return S(s.upper())
        if name in ("push_str", "push", "push_java", "push_java_str") and sv is not None and place:
            g, st = place()
            st(S(g()[1] + sv))
            return UNIT
        if name == "is_ascii_digit":
            return Bv(len(s) == 1 and s.isdigit() and s.isascii())
        if name == "strip_prefix" and sv is not None:
            return SOME(S(s[len(sv):])) if s.startswith(sv) else NONE
        if name == "strip_suffix" and sv is not None:
            return SOME(S(s[:len(s) - len(sv)])) if sv and s.endswith(sv) else (SOME(S(s)) if sv == "" else NONE)
        if name == "parse":
            res = (n.get("ty") or "") if n is not None else ""
            inner = res[len("core::result::Result<"):].split(",")[0].strip() if res.startswith("core::result::Result<") else ""
            cands = [b for b in self.c.bodies if b.get("name") == "from_str" and (b.get("impl_ty") or "").split("<")[0] == inner.split("<")[0]]
            if len(cands) == 1:
                return self.call_body(cands[0], [a[0]])
            raise Unknown("str::parse::<%s>" % inner)
        return None
