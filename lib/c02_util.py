"""A2 — wire-layout extraction for the duke class reader and the duke class writer (used by rules/c02.py).

From the typed HIR of a reader / writer function the ordered sequence of stream primitives is extracted as a layout term:

  {"i": "p", "t": "u16", "kind": "class", "refine": "FieldName", "f": "name", "const": None, "len": None, "node": n}   primitive
  {"i": "rep", "cw": "u16" | None, "body": [...], "count": <p> | None, "node": n, "filtered": field | None}            repetition
  {"i": "alt", "arms": {tag: {"items": [...], "label": variant, "sp": ..}}}                                            tag dispatch
  {"i": "ref", "key": def key, "name": fn name, "ty": self type for trait-dispatched calls}                            sub-structure
  {"i": "bytes", "node": n}       raw bytes          {"i": "skip", "n": n}      {"i": "align4"}
  {"i": "splice", "buf": id}      (writer) a local byte buffer appended here
  {"i": "attr", "name": str, "body": [...]}      (writer) write_attribute(buf, pool, NAME, closure)
  {"i": "attrhdr", "name": str, "n": N}          (writer) write_attribute_fix_length(buf, pool, NAME, N)
  {"i": "if", "cond": n, "then": [...], "else": [...], "tn": n, "en": n | None}   conditional that could not be normalised away
  {"i": "match", "node": n, "arms": [(arm, [...])]}
  {"i": "dispatch", "node": n, "arms": {...}}    (reader) attribute dispatch match
  {"i": "unk", "what": str, "sp": ..}            unrecognised construct touching the stream (fail closed)

Kinds come from the call that interprets / produces the value (`pool.get_class(r.read_u16()?)` / `w.write_u16(pool.put_class(x)?)`), `refine`
is the checked string newtype behind a utf8 index, `f` the tree / pool-entry field the value is stored in / taken from.
This is an abstraction of the program text, nothing is executed.
"""
from lib import hir as H

READ_PRIM = {
    "read_u8": "u8", "read_i8": "i8", "read_u16": "u16", "read_i16": "i16", "read_u32": "u32", "read_i32": "i32", "read_u64": "u64", "read_i64": "i64",
    "read_u8_as_usize": "u8", "read_u16_as_usize": "u16", "read_u32_as_usize": "u32",
    "read_u8_as_local_variable": "u8", "read_u16_as_local_variable": "u16",
    "read_i16_as_branch_target_label": "i16", "read_i32_as_branch_target_label": "i32",
}
READ_IMPLIED_KIND = {"read_u8_as_local_variable": "lv", "read_u16_as_local_variable": "lv",
                     "read_i16_as_branch_target_label": "label", "read_i32_as_branch_target_label": "label"}
WRITE_PRIM = {
    "write_u8": "u8", "write_i8": "i8", "write_u16": "u16", "write_i16": "i16", "write_u32": "u32", "write_i32": "i32", "write_u64": "u64", "write_i64": "i64",
    "write_usize_as_u8": "u8", "write_usize_as_u16": "u16", "write_usize_as_u32": "u32",
}
WIDTH = {"u8": 1, "i8": 1, "u16": 2, "i16": 2, "u32": 4, "i32": 4, "u64": 8, "i64": 8}

# pool accessor -> entry kind (reader get_X <-> writer put_X, by name)
POOL_KIND = {
    "class": "class", "obj_class": "class", "utf8": "utf8", "utf8_ref": "utf8", "module": "module", "package": "package",
    "method_handle": "method_handle", "constant_value": "constant_value", "method_name_and_type": "nat", "field_name_and_type": "nat",
    "name_and_type": "nat", "integer": "int", "integer_as_byte": "int:byte", "byte_as_integer": "int:byte", "integer_as_char": "int:char",
    "char_as_integer": "int:char", "integer_as_short": "int:short", "short_as_integer": "int:short", "integer_as_boolean": "int:boolean",
    "boolean_as_integer": "int:boolean", "long": "long", "float": "float", "double": "double", "loadable": "loadable", "field_ref": "fieldref",
    "method_ref": "methodref", "interface_method_ref": "imethodref", "method_ref_or_interface_method_ref": "methodref|imethodref",
    "invoke_dynamic": "indy",
}
LABEL_CALLS = {"get_or_create", "get_or_create_check_exclusive", "try_get", "create", "get"}
RANGE_CALLS = {"get_or_create_range", "try_get_range"}


def tyname(ty):
    """`&'a duke::tree::field::FieldNameSlice` -> `FieldName`; Option<..>/Box<..>/refs stripped; JavaStr/JavaString -> JavaStr."""
    if not ty:
        return None
    t = ty.strip()
    while True:
        t0 = t
        t = t.lstrip("&").strip()
        if t.startswith("mut "):
            t = t[4:].strip()
        if t.startswith("'"):
            t = t.split(" ", 1)[1].strip() if " " in t else t
        for w in ("core::option::Option<", "alloc::boxed::Box<", "alloc::borrow::Cow<"):
            if t.startswith(w) and t.endswith(">"):
                t = t[len(w):-1].strip()
        if t == t0:
            break
    if "<" in t:
        t = t.split("<", 1)[0]
    t = t.rsplit("::", 1)[-1]
    if t.endswith("Slice"):
        t = t[:-5]
    if t in ("JavaString", "JavaStr", "str", "String"):
        t = "JavaStr"
    return t


def pool_kind_of_name(name):
    for pre in ("get_", "put_"):
        if name and name.startswith(pre):
            return POOL_KIND.get(name[len(pre):])
    return None


def is_stream_call(n, side):
    if n.get("k") != "mcall":
        return False
    c = n.get("callee") or {}
    tr = c.get("trait") or ""
    if side == "r":
        return tr in ("duke::ClassRead", "duke::class_reader::CodeReadHelper")
    return tr == "duke::ClassWrite"


def has_stream_ops(n, side):
    return any(is_stream_call(x, side) for x in H.walk(n))



def _only_continue(els):
    """the else block of a let-else is just `continue` (possibly wrapped in blocks / a trailing semicolon)"""
    e = H.peel(els, refs=False)
    while e.get("k") in ("block", "semi"):
        if e.get("k") == "semi":
            e = H.peel(e["e"], refs=False)
            continue
        items = e.get("stmts", []) + ([e["tail"]] if "tail" in e else [])
        if len(items) != 1:
            return False
        e = H.peel(items[0], refs=False)
    return e.get("k") == "continue"


def _only_break(n, label=None):
    """`n` is just `break` of the loop labelled `label` (possibly wrapped in blocks / a trailing semicolon), no value"""
    e = H.peel(n, refs=False)
    while e.get("k") in ("block", "semi"):
        if e.get("k") == "semi":
            e = H.peel(e["e"], refs=False)
            continue
        items = e.get("stmts", []) + ([e["tail"]] if "tail" in e else [])
        if len(items) != 1:
            return False
        e = H.peel(items[0], refs=False)
    return e.get("k") == "break" and "e" not in e and e.get("label") in (None, label)


def loop_parts(n):
    """(test, negated, body nodes) of a loop whose first action is its only head test: `while C { B }` (= `loop { if C { B } else
    { break } }`), `loop { if !C { break } B }`, `loop { if !C { break } else { B } }`. The body runs while `test` (negated: while
    not `test`) holds. None for any other loop."""
    if n.get("k") != "loop" or n["body"].get("k") != "block":
        return None
    b = n["body"]
    items = b["stmts"] + ([b["tail"]] if "tail" in b else [])
    if not items:
        return None
    first = H.peel(items[0], refs=False, blocks=False)
    if first.get("k") != "if":
        return None
    lb = n.get("label")
    tb = _only_break(first["then"], lb)
    eb = "else" in first and _only_break(first["else"], lb)
    if eb and not tb and len(items) == 1:
        return first["cond"], False, [first["then"]]
    if tb and "else" not in first:
        return first["cond"], True, items[1:]
    if tb and not eb and len(items) == 1:
        return first["cond"], True, [first["else"]]
    return None


_FLIP = {"<": ">", ">": "<", "<=": ">=", ">=": "<=", "!=": "!=", "==": "=="}
_NEG = {"<": ">=", ">": "<=", "<=": ">", ">=": "<", "!=": "==", "==": "!="}


def _assigns_of(root, lid):
    return [x for x in H.walk(root) if x.get("k") in ("assign", "assignop") and (H.place_root(x["l"])[0] or (None,))[0] == lid]


def counted_loop(fnroot, n, parents):
    """{"bound": N expression, "body": nodes, "counter": local id} when the loop `n` is a counting loop that runs its body exactly N
    times, like `for _ in 0..N`:
        let mut c = 0; while c < N { B; c += 1; }        (also `c != N`, `N > c`, negated / `loop { if c >= N { break } .. }` spellings)
        let mut c = N; while c > 0 { B; c -= 1; }        (also `c != 0`, `0 < c`, `c >= 1`)
    where `c` is declared in a block around the loop (no other loop or closure in between), is assigned nowhere in the function except
    by the single step statement, which is a direct statement of B, N does not change during the loop (no local of it is assigned in
    B, no call in it) and B has no `continue` of this loop (it would skip the step). None for anything else (the loop stays opaque)."""
    lp = loop_parts(n)
    if lp is None:
        return None
    cond, neg, body = lp
    c0, neg2 = H.negate_peel(cond)
    neg = neg != neg2
    c0 = H.peel(c0, refs=False)
    if c0.get("k") != "bin" or c0.get("op") not in _FLIP or c0.get("overloaded"):
        return None
    op = _NEG[c0["op"]] if neg else c0["op"]
    for (a, b_, o) in ((c0["l"], c0["r"], op), (c0["r"], c0["l"], _FLIP[op])):
        l = H.local_of(H.peel(a, casts=True))
        if l is None:
            continue
        cid = l[0]
        let = next((x for x in H.walk(fnroot) if x.get("k") == "let" and "init" in x and x["pat"].get("k") == "bind" and x["pat"]["id"] == cid), None)
        if let is None or "mut" not in (let["pat"].get("mode") or "").split():
            continue
        # declared in a block around the loop, not outside an enclosing loop / closure
        scoped = False
        for q in reversed(parents):
            if q.get("k") in ("loop", "for", "closure"):
                break
            if q.get("k") == "block" and any(s is let for s in q["stmts"]):
                scoped = True
                break
        if not scoped:
            continue
        asg = _assigns_of(fnroot, cid)
        if len(asg) != 1 or asg[0].get("k") != "assignop" or H.const_value(asg[0]["r"]) != 1 or H.local_of(asg[0]["l"]) is None:
            continue
        # any other mutable access of the counter (`&mut c`) makes it opaque
        if any(x.get("k") == "ref" and x.get("mut") and H.local_of(x["e"]) and H.local_of(x["e"])[0] == cid for x in H.walk(fnroot)):
            continue
        step = asg[0]
        stmts = []
        for x in body:
            x0 = x if x.get("k") == "block" else H.peel(x, refs=False, semi=False, blocks=False)
            stmts.extend(x0["stmts"] + ([x0["tail"]] if "tail" in x0 else []) if x0.get("k") == "block" else [x])
        if not any(H.peel(s, refs=False) is step for s in stmts):
            continue
        # no `continue` of this loop inside the body
        def conts(x, inner):
            k = x.get("k")
            if k == "continue":
                return (x.get("label") is None and not inner) or (x.get("label") is not None and x.get("label") == n.get("label"))
            if k == "closure":
                return False
            inner2 = inner or k in ("loop", "for")
            return any(conts(y, inner2) for y in H.children(x))
        if any(conts(s, False) for s in stmts):
            continue
        init = let["init"]
        zero = lambda e: H.const_value(H.peel(e, casts=True)) == 0
        one = lambda e: H.const_value(H.peel(e, casts=True)) == 1
        if step["op"] == "+=" and zero(init) and o in ("<", "!="):
            bound = b_
        elif step["op"] == "-=" and ((o in (">", "!=") and zero(b_)) or (o == ">=" and one(b_))):
            bound = init
        else:
            continue
        # the bound is fixed while the loop runs (the start value of a down-counter is evaluated once anyway)
        fixed = True
        for x in (H.walk(bound) if step["op"] == "+=" else ()):
            if x.get("k") in ("call", "mcall", "closure", "assign", "assignop"):
                fixed = False
            if x.get("k") == "path" and x["res"].get("r") == "local":
                for s in stmts:
                    if _assigns_of(s, x["res"]["id"]):
                        fixed = False
        if not fixed:
            continue
        return {"bound": bound, "body": [s for s in stmts if H.peel(s, refs=False) is not step], "counter": cid}
    return None


class Extractor:
    """Event extraction for one function body. Events are (buffer id, item)."""

    def __init__(self, crate, body, side):
        self.crate = crate
        self.fn = body
        self.side = side
        self.alias = {}           # closure parameter id -> buffer id it stands for
        self.parents = {}
        for n, ps in H.walk_with_parents(body["body"]):
            self.parents[id(n)] = ps
        self.closure_of = {}      # local id -> closure node bound to it
        self.events = self.walk(body["body"])

    # ------------------------------------------------------------------ helpers
    def buf_of(self, e):
        e = H.peel(e)
        while e.get("k") in ("ref", "un", "cast"):
            e = H.peel(e["e"])
        if e.get("k") == "path" and e["res"].get("r") == "local":
            i = e["res"]["id"]
            return self.alias.get(i, i)
        if e.get("k") == "mcall" and e["name"] in ("by_ref", "as_mut", "borrow_mut"):
            return self.buf_of(e["recv"])
        return None

    def closure_params(self, c):
        return [H.pat_bindings(p) for p in c["params"]]

    def walk_closure(self, c, bufs):
        """Walk a closure body with its parameters (by position) standing for the given buffers (None = not a stream)."""
        for p, b in zip(c["params"], bufs):
            if b is None:
                continue
            for (i, _nm) in H.pat_bindings(p):
                self.alias[i] = b
        return self.walk(c["body"])

    def fresh_closure(self, c, pos):
        """Walk a closure whose parameter `pos` is a fresh buffer; -> (buffer id, events)."""
        bs = H.pat_bindings(c["params"][pos]) if pos < len(c["params"]) else []
        bid = bs[0][0] if bs else id(c)
        return bid, self.walk(c["body"])

    def seq(self, nodes):
        out = []
        for i, x in enumerate(nodes):
            # `let PAT = e else { continue };  <rest>`  ==  `if let PAT = e { <rest> }` (the early-exit spelling of a filtered element)
            if x.get("k") == "let" and "els" in x and "init" in x and _only_continue(x["els"]):
                rest = self.seq(nodes[i + 1:])
                pre = self.walk(x["init"])
                if not rest:
                    return out + pre
                cond = {"k": "letexpr", "pat": x["pat"], "init": x["init"], "sp": x.get("sp"), "ty": "bool"}
                node = {"k": "if", "cond": cond, "then": {"k": "block", "stmts": list(nodes[i + 1:]), "sp": x.get("sp")}, "sp": x.get("sp")}
                return out + pre + [(None, {"i": "if", "cond": cond, "then": rest, "else": [], "tn": node["then"], "en": None, "node": node})]
            # `let PAT = e else { <stream ops>; return/continue };  <rest>`  ==  `if let PAT = e { <rest> } else { <stream ops> }`
            if x.get("k") == "let" and "els" in x and "init" in x and H.diverges(x["els"]) and has_stream_ops(x["els"], self.side):
                els = self.walk(x["els"])
                declined = (self.side == "r" and len(els) == 1 and els[0][1].get("i") == "skip" and els[0][1].get("n") is None)
                if els and not declined:
                    rest = self.seq(nodes[i + 1:])
                    pre = self.walk(x["init"])
                    cond = {"k": "letexpr", "pat": x["pat"], "init": x["init"], "sp": x.get("sp"), "ty": "bool"}
                    then = {"k": "block", "stmts": list(nodes[i + 1:]), "sp": x.get("sp")}
                    node = {"k": "if", "cond": cond, "then": then, "else": x["els"], "sp": x.get("sp")}
                    return out + pre + [(None, {"i": "if", "cond": cond, "then": rest, "else": els, "tn": then, "en": x["els"], "node": node})]
            out.extend(self.walk(x))
        return out

    def repo_fn(self, callee):
        if not callee:
            return None
        key = callee.get("inst_key") or callee.get("key")
        return self.crate.by_key.get(key)

    def stream_param_index(self, fnbody):
        want = ("ClassRead",) if self.side == "r" else ("ClassWrite", "Vec<u8>")
        for i, t in enumerate(fnbody.get("inputs") or []):
            if any(w in t for w in want) and t.lstrip().startswith("&"):
                return i
        return None

    # ------------------------------------------------------------------ the walk
    def walk(self, n):
        k = n.get("k")
        side = self.side
        if k == "block":
            return self.seq(n["stmts"] + ([n["tail"]] if "tail" in n else []))
        if k == "let":
            init = n.get("init")
            if init is not None and H.peel(init).get("k") == "closure" and n["pat"].get("k") == "bind":
                self.closure_of[n["pat"]["id"]] = H.peel(init)
                return []
            out = self.walk(init) if init is not None else []
            if "els" in n:
                els = self.walk(n["els"])
                # reader: `let Some(v) = visitor.visit_x()? else { reader.skip(length)?; continue };` is the let-else spelling of
                # `if let Some(v) = .. { <parse> } else { skip }`: the visitor declined, the skip consumes the same bytes unseen
                declined = (side == "r" and init is not None and len(els) == 1 and els[0][1].get("i") == "skip" and els[0][1].get("n") is None
                            and any((H.callee_name(x) or "").startswith("visit") for x in H.walk(init) if x.get("k") in ("call", "mcall")))
                if not declined:
                    out += els
            return out
        if k == "if":
            c = self.walk(n["cond"])
            t = self.walk(n["then"])
            e = self.walk(n["else"]) if "else" in n else []
            if not t and not e:
                return c
            # reader: `if let Some(v) = visitor.visit_x()? { <parse> } else { reader.skip(length)? }` — the visitor declined this item;
            # the layout of the attribute is the parsed alternative (the skip consumes the same bytes unseen)
            c0 = H.peel(n["cond"], refs=False)
            # reader: `if interests.x { <parse> } else { reader.skip(length)? }` (either polarity) — the same alternative as the guard pair
            # `name == X && !interests.x => skip` / `name == X => <parse>` of an attribute dispatch: the layout is the parsed side
            if side == "r":
                flag = interest_test(self.fn["body"], n["cond"])
                if flag is not None:
                    take, other = (e, t) if flag[1] else (t, e)
                    if take and len(other) == 1 and other[0][1].get("i") == "skip" and other[0][1].get("n") is None:
                        return c + take
            if side == "r" and c0.get("k") == "letexpr" and any((H.callee_name(x) or "").startswith("visit") for x in H.walk(c0["init"]) if x.get("k") in ("call", "mcall")):
                pure_skip = lambda items: len(items) == 1 and items[0][1].get("i") == "skip" and items[0][1].get("n") is None
                if t and pure_skip(e):
                    return c + t
                if e and pure_skip(t):
                    return c + e
            return c + [(None, {"i": "if", "cond": n["cond"], "then": t, "else": e, "tn": n["then"], "en": n.get("else"), "node": n})]
        if k == "match":
            s = self.walk(n["scrut"])
            arms = []
            anyev = False
            for a in n["arms"]:
                ev = (self.walk(a["guard"]) if "guard" in a else []) + self.walk(a["body"])
                anyev = anyev or bool(ev)
                arms.append((a, ev))
            if not anyev:
                return s
            return s + [(None, {"i": "match", "node": n, "arms": arms})]
        if k == "for":
            it = self.walk(n["iter"])
            body = self.walk(n["body"])
            if not body:
                return it
            return it + [(None, {"i": "rep", "body": body, "node": n, "cw": None, "count": None, "filtered": None})]
        if k == "loop":
            # reader: a counting loop over a count read before it is the `while` spelling of `for _ in 0..count`
            cl = counted_loop(self.fn["body"], n, self.parents.get(id(n), ())) if side == "r" else None
            if cl is not None:
                body = self.seq(cl["body"])
                if not body:
                    return []
                return [(None, {"i": "rep", "body": body, "node": n, "cw": None, "count": None, "filtered": None, "bound": cl["bound"]})]
            body = self.walk(n["body"])
            if not body:
                return []
            return [(None, {"i": "loop", "body": body, "node": n})]
        if k == "closure":
            if has_stream_ops(n["body"], side):
                # the buffers the closure touches, when every one of them is a local of the enclosing function (then the closure is
                # irrelevant for the layout of any other buffer); None = not determinable -> relevant for every buffer
                inner = _bound_inside(n)
                bufs = set()
                for x in H.walk(n["body"]):
                    if is_stream_call(x, side):
                        b = self.buf_of(x["recv"])
                        if b is None or b in inner:
                            bufs = None
                            break
                        bufs.add(b)
                return [(None, {"i": "unk", "what": "closure touching the stream in an unrecognised position", "sp": n.get("sp"), "bufs": bufs})]
            return []
        if k == "call":
            return self.call(n)
        if k == "mcall":
            return self.mcall(n)
        return self.seq(H.children(n))

    def call(self, n):
        side = self.side
        f = n.get("f")
        c = n.get("callee") or {}
        # immediately invoked closure / closure bound to a local
        if f is not None:
            f0 = H.peel(f)
            if f0.get("k") == "closure":
                return self.seq(n["args"]) + self.walk(f0["body"])
            l = H.local_of(f0)
            if l and l[0] in self.closure_of:
                return self.seq(n["args"]) + self.walk(self.closure_of[l[0]]["body"])
        if c.get("r") == "local" and c.get("id") in self.closure_of:
            return self.seq(n["args"]) + self.walk(self.closure_of[c["id"]]["body"])
        name = H.callee_name(n)
        args = n["args"]
        if side == "w" and name == "write_attribute" and len(args) == 4 and H.peel(args[3]).get("k") == "closure":
            buf = self.buf_of(args[0])
            cl = H.peel(args[3])
            bid, ev = self.fresh_closure(cl, 0)
            body = project(ev, bid)
            stray = [b for (b, _i) in flat_events(ev) if b is not None and b != bid]
            item = {"i": "attr", "name": H.const_value(args[2]), "name_node": args[2], "body": body, "node": n, "closure": cl, "stray": stray}
            return self.seq(args[:3]) + [(buf, item)]
        if side == "w" and name == "write_attribute_fix_length" and len(args) == 4:
            buf = self.buf_of(args[0])
            return self.seq(args) + [(buf, {"i": "attrhdr", "name": H.const_value(args[2]), "name_node": args[2], "n": H.const_value(args[3]), "node": n})]
        if name == "align_to_4_byte_boundary" and args:
            return self.seq(args) + [(self.buf_of(args[0]), {"i": "align4", "node": n})]
        fb = self.repo_fn(c)
        if fb is not None:
            si = self.stream_param_index(fb)
            if si is not None and si < len(args):
                buf = self.buf_of(args[si])
                return self.seq(args) + [(buf, {"i": "ref", "key": fb["key"], "name": fb["name"], "node": n, "ty": None})]
        # trait-dispatched reader / writer helper (TargetInfoRead / TargetInfoWrite)
        tr = c.get("trait") or ""
        if tr.startswith("duke::") and name in ("read_type_reference", "write_type_reference"):
            buf = self.buf_of(args[0]) if args else None
            return self.seq(args) + [(buf, {"i": "ref", "key": tr + "::" + name, "name": name, "node": n, "ty": c.get("self_ty")})]
        return self.seq(args)

    def _calls_stream_fn(self, body):
        """the body calls a function of the reader / writer module that takes the stream (`|_| read_type_path_entry(reader)`)"""
        for x in H.walk(body):
            if x.get("k") in ("call", "mcall"):
                fb = self.repo_fn(x.get("callee") or {})
                if fb is not None and fb["key"].startswith(("duke::simple_class_writer", "duke::class_reader")) and self.stream_param_index(fb) is not None:
                    return True
        return False

    def mcall(self, n):
        side = self.side
        name = n["name"]
        if is_stream_call(n, side):
            buf = self.buf_of(n["recv"])
            pre = self.seq(n["args"]) if name not in ("read_vec", "write_slice", "with_pos") else []
            if side == "r":
                if name in READ_PRIM:
                    return pre + [(buf, {"i": "p", "t": READ_PRIM[name], "node": n, "name": name, "const": None, "len": None})]
                if name == "read_u8_vec":
                    return pre + [(buf, {"i": "bytes", "node": n})]
                if name == "skip":
                    return pre + [(buf, {"i": "skip", "n": H.const_value(n["args"][0]), "node": n})]
                if name in ("marker", "goto"):
                    return pre + [(buf, {"i": "pos", "name": name, "node": n})]
                if name == "with_pos":
                    cl = H.peel(n["args"][1])
                    if cl.get("k") == "closure":
                        ev = self.walk_closure(cl, [buf])
                        return self.walk(n["args"][0]) + [(buf, {"i": "withpos", "body": ev, "node": n})]
                if name == "read_vec":
                    a0, a1 = H.peel(n["args"][0]), H.peel(n["args"][1])
                    if a0.get("k") == "closure" and a1.get("k") == "closure":
                        sz = self.walk_closure(a0, [buf])
                        el = self.walk_closure(a1, [buf])
                        return sz + [(buf, {"i": "rep", "body": el, "node": n, "cw": None, "count": None, "filtered": None, "vec": True})]
                return pre + [(buf, {"i": "unk", "what": "ClassRead::%s in an unrecognised form" % name, "sp": n.get("sp")})]
            else:
                if name in WRITE_PRIM:
                    arg = n["args"][0]
                    it = {"i": "p", "t": WRITE_PRIM[name], "node": n, "name": name, "arg": arg, "const": None, "len": None}
                    if name.startswith("write_usize_as"):
                        it["len"] = arg
                    return pre + [(buf, it)]
                if name == "write_u8_slice":
                    src = resolve_place(self.fn["body"], n["args"][0])
                    a = H.peel(src)
                    l = H.local_of(a)
                    if l is not None and "Vec<u8>" in (H.peel(a).get("ty") or ""):
                        return pre + [(buf, {"i": "splice", "buf": self.alias.get(l[0], l[0]), "bufname": l[1], "node": n})]
                    if a.get("k") == "array" and all(isinstance(H.const_value(x), int) for x in a["es"]):
                        return pre + [(buf, {"i": "p", "t": "u8", "node": n, "name": name, "arg": x, "const": H.const_value(x), "len": None, "kind": "pad"})
                                      for x in a["es"]]
                    return pre + [(buf, {"i": "bytes", "node": n, "arg": src})]
                if name == "write_slice":
                    a1, a2 = H.peel(n["args"][1]), H.peel(n["args"][2])
                    if a1.get("k") == "closure" and a2.get("k") == "closure":
                        pre = self.walk(n["args"][0])
                        sz = self.walk_closure(a1, [buf, None])
                        # the size closure's second parameter is slice.len() of the first argument
                        for (b_, it_) in sz:
                            if it_.get("i") == "p" and it_.get("len") is not None:
                                l = H.local_of(it_["len"])
                                ps = H.pat_bindings(a1["params"][1]) if len(a1["params"]) > 1 else []
                                if l and ps and l[0] == ps[0][0]:
                                    it_["len_of"] = n["args"][0]
                        el = self.walk_closure(a2, [buf, None])
                        return pre + sz + [(buf, {"i": "rep", "body": el, "node": n, "cw": None, "count": None, "filtered": None,
                                                   "over": n["args"][0], "elem_pat": a2["params"][1] if len(a2["params"]) > 1 else None})]
                return pre + [(buf, {"i": "unk", "what": "ClassWrite::%s in an unrecognised form" % name, "sp": n.get("sp")})]
        # `<iterator>.try_for_each(|x| ..)` / `.for_each(..)` / `.map(..)` with stream operations in the closure == `for x in <iterator> { .. }`
        cl = iter_closure(n)
        if cl is not None and (has_stream_ops(cl["body"], side) or self._calls_stream_fn(cl["body"])):
            it = self.walk(n["recv"])
            body = self.walk(cl["body"])
            return it + [(None, {"i": "rep", "body": body, "node": n, "cw": None, "count": None, "filtered": None,
                                 "elem_pat": cl["params"][0] if cl["params"] else None})]
        # method of a repo type that takes the stream (PoolWrite::write(self, writer), ...)
        c = n.get("callee") or {}
        fb = self.repo_fn(c)
        if fb is not None and fb["key"].startswith(("duke::simple_class_writer", "duke::class_reader")):
            si = self.stream_param_index(fb)
            allargs = [n["recv"]] + n["args"]
            if si is not None and si < len(allargs):
                buf = self.buf_of(allargs[si])
                return self.seq(allargs) + [(buf, {"i": "ref", "key": fb["key"], "name": fb["name"], "node": n, "ty": None})]
        out = self.walk(n["recv"])
        for a in n["args"]:
            out.extend(self.walk(a))
        return out


def resolve_place(root, e, depth=0):
    """`e`, with an immutable let-bound local that merely names a place (`let bytes = &attribute.bytes;`) replaced by that place."""
    l = H.local_of(e)
    if l and depth < 4:
        let = next((n for n in H.walk(root) if n.get("k") == "let" and "init" in n and n["pat"].get("k") == "bind" and n["pat"]["id"] == l[0]), None)
        if let is not None and "mut" not in (let["pat"].get("mode") or "").split():
            r, path = H.place_root(let["init"])
            if r is not None and (path or H.local_of(let["init"])) and not any(p_ == ".clone()" or p_ == ".to_owned()" for p_ in path):
                return resolve_place(root, let["init"], depth + 1)
    return e


ITER_CONSUMERS = ("try_for_each", "for_each", "map")


def iter_closure(n):
    """closure node when `n` is `<iterator>.try_for_each(|x| ..)` / `.for_each(..)` / `.map(..)` — the iterator-chain spelling of a
    `for` loop over the receiver (not Option::map / Result::map: those are conditionals, not repetitions)."""
    if n.get("k") != "mcall" or n.get("name") not in ITER_CONSUMERS or len(n.get("args") or []) != 1:
        return None
    cl = H.peel(n["args"][0])
    if cl.get("k") != "closure":
        return None
    t = (H.peel(n["recv"], refs=False).get("ty") or "").lstrip("&").strip()
    if t.startswith("mut "):
        t = t[4:]
    if t.startswith(("core::option::Option", "core::result::Result")) or not t:
        return None
    return cl


def rep_iter(node, rep=None):
    """The iterated expression of a repetition node (`for` loop or iterator-closure call)."""
    if rep is not None and rep.get("over") is not None:
        return rep["over"]
    if node.get("k") == "for":
        return node.get("iter")
    if iter_closure(node) is not None:
        return node["recv"]
    return None


def _bound_inside(n):
    """ids of the locals bound inside `n` (closure parameters, lets, arm / for patterns)."""
    out = set()
    for x in H.walk(n):
        k = x.get("k")
        pats = []
        if k == "closure":
            pats.extend(x["params"])
        elif k in ("let", "letexpr", "for"):
            pats.append(x["pat"])
        elif k == "match":
            pats.extend(a["pat"] for a in x["arms"])
        for p in pats:
            for (i, _nm) in H.pat_bindings(p):
                out.add(i)
    return out


def interest_test(root, cond, depth=0):
    """(flag field, negated) when `cond` is `[!]<interests>.F`: a bool flag of one of the visitor `*Interests` structs ("does the visitor
    want this attribute"), directly or through a let-bound local."""
    c0, neg = H.negate_peel(cond)
    c0 = H.peel(c0)
    if c0.get("k") == "field" and tyname(c0.get("adt") or "").endswith("Interests"):
        return c0["name"], neg
    l = H.local_of(c0)
    if l and depth < 3:
        init = H.let_init_of(root, l[0])
        if init is not None:
            r = interest_test(root, init, depth + 1)
            if r is not None:
                return r[0], r[1] != neg
    return None


def flat_events(events):
    """All (buf, item) pairs including those nested in if / match / rep / loop."""
    for (b, it) in events:
        yield (b, it)
        i = it.get("i")
        if i == "if":
            yield from flat_events(it["then"])
            yield from flat_events(it["else"])
        elif i == "match":
            for (_a, ev) in it["arms"]:
                yield from flat_events(ev)
        elif i in ("rep", "loop", "withpos"):
            yield from flat_events(it["body"])


def project(events, buf):
    """Items of one buffer, conditionals / repetitions pruned to that buffer (empty ones dropped)."""
    out = []
    for (b, it) in events:
        i = it.get("i")
        if i == "if":
            t, e = project(it["then"], buf), project(it["else"], buf)
            if t or e:
                out.append(dict(it, then=t, **{"else": e}))
        elif i == "match":
            arms = [(a, project(ev, buf)) for (a, ev) in it["arms"]]
            if any(x for (_a, x) in arms):
                out.append(dict(it, arms=arms))
        elif i in ("rep", "loop", "withpos"):
            body = project(it["body"], buf)
            if body and (b is None or b == buf):
                out.append(dict(it, body=body))
        elif i == "unk":
            if it.get("bufs") is None or buf in it["bufs"]:
                out.append(it)
        elif b == buf:
            out.append(it)
    return out


def buffers(events):
    seen = []
    for (b, _it) in flat_events(events):
        if b is not None and b not in seen:
            seen.append(b)
    return seen


# ---------------------------------------------------------------------------------------- kind classification
def _climb(ex, n):
    """(parent, child) pairs from n upwards inside the function."""
    ps = ex.parents.get(id(n), ())
    child = n
    for p in reversed(ps):
        yield p, child
        child = p


def _struct_field_of(p, child):
    if p.get("k") == "struct":
        for f in p["fields"]:
            if f["e"] is child:
                return f["name"]
    return None


def _uses_of_local(ex, lid):
    return [n for n in H.walk(ex.fn["body"]) if n.get("k") == "path" and n["res"].get("r") == "local" and n["res"]["id"] == lid]


def classify_read(ex, prim, depth=0):
    """kind / refine / field tag of a reader primitive from the calls that consume its value."""
    n = prim["node"]
    kind = READ_IMPLIED_KIND.get(prim.get("name"))
    res = {"kind": kind, "refine": None, "f": None, "scrut_of": None, "count_of": None, "scrut_direct": None}
    _follow(ex, n, res, 0)
    if res["f"] is None and res.get("ftuple"):
        res["f"] = res["ftuple"]
    res.pop("ftuple", None)
    return res


def _follow(ex, n, res, depth):
    if depth > 4:
        return
    for p, child in _climb(ex, n):
        k = p.get("k")
        if k in ("try", "ref", "cast", "semi") or (k == "un" and p.get("op") == "deref"):
            continue
        if k == "block" and p.get("tail") is child:
            continue
        if k in ("mcall", "call"):
            nm = H.callee_name(p)
            c = p.get("callee") or {}
            if nm in ("Ok", "Some"):
                continue
            allargs = ([p["recv"]] if k == "mcall" else []) + p["args"]
            if k == "mcall" and p["recv"] is child and nm in ("into",):
                res["kind"] = res["kind"] or ("flags:%s" % tyname(p.get("ty")))
                continue
            if nm in ("from",) and (c.get("path") or "").startswith("core::convert::From"):
                res["kind"] = res["kind"] or ("flags:%s" % tyname(p.get("ty")))
                continue
            if nm in ("try_from", "try_into") and res["kind"] and res["kind"].endswith("utf8"):
                t = p.get("ty") or ""
                if t.startswith("core::result::Result<"):
                    t = t[len("core::result::Result<"):].split(",")[0]
                res["refine"] = res["refine"] or tyname(t)
                continue
            if nm == "get_optional" and len(p["args"]) == 2 and p["args"][0] is child:
                fk = _fn_arg_kind(p["args"][1])
                res["kind"] = "opt(%s)" % fk
                continue
            pk = pool_kind_of_name(nm) if "pool" in (c.get("impl_ty") or c.get("path") or "") else None
            if pk and res["kind"] is None:
                res["kind"] = pk
                continue
            if nm in LABEL_CALLS and "Labels" in (c.get("impl_ty") or c.get("path") or "") and res["kind"] is None:
                res["kind"] = "label"
                continue
            if nm in RANGE_CALLS and res["kind"] is None:
                idx = [i for i, a in enumerate(p["args"]) if a is child]
                res["kind"] = "label-range:%s" % (idx[0] if idx else "?")
                continue
            if nm == "from_atype":
                res["kind"] = "atype"
                continue
            if (c.get("dk") or "").startswith("Ctor"):
                return
            # some other call consumes it (visitor call, with_context, map..): conversions keep going, others stop
            if nm in ("with_context", "context", "map", "transpose", "map_err", "clone", "to_owned"):
                continue
            idx = [i for i, a in enumerate(allargs) if a is child]
            if idx and res["f"] is None:
                res["f"] = flow_field(ex.crate, c, idx[0], nm)
            return
        if k == "struct":
            f = _struct_field_of(p, child)
            if p.get("adt", "").startswith("core::ops::range::Range"):
                # `for _ in 0..<read>`
                for q, _c in _climb(ex, p):
                    if q.get("k") == "for" and q.get("iter") is p:
                        res["count_of"] = q
                    elif iter_closure(q) is not None and H.peel(q["recv"]) is p:
                        res["count_of"] = q
                    break
                return
            res["f"] = res["f"] or f
            return
        if k == "let" and p.get("init") is child:
            if p["pat"].get("k") == "bind":
                _follow_local(ex, p["pat"]["id"], res, depth)
            return
        if k == "match" and p.get("scrut") is child:
            res["scrut_of"] = p
            res["scrut_direct"] = depth == 0
            return
        if k == "tuple":
            idx = [i for i, a in enumerate(p["es"]) if a is child]
            if idx and res["f"] is None and len(p["es"]) > 1 and not p.get("mac") and res.get("ftuple") is None:
                res["ftuple"] = "#%d" % idx[0]
            return
        if k == "array":
            return
        return


def flow_field(crate, callee, argpos, name, depth=0):
    """Tree field that argument `argpos` of a call ends up in: follows the parameter inside the callee (for visitor trait methods: inside
    the implementation for the duke::tree builder) to a struct-literal field / `self.F = ..` / `self.F.insert_if_empty(..)`."""
    if depth > 2:
        return None
    key = callee.get("inst_key") or callee.get("key")
    bodies = []
    b = crate.by_key.get(key)
    if b is not None and b.get("body") is not None:
        bodies.append(b)
    tr = callee.get("trait") or ""
    if not bodies and tr.startswith("duke::visitor::"):
        for x in crate.bodies:
            if x.get("name") == name and tr in (x.get("impl_trait") or "") and (x.get("impl_ty") or "").startswith(("duke::tree::", "alloc::vec::Vec<duke::tree::")):
                bodies.append(x)
    found = set()
    for fb in bodies:
        if argpos >= len(fb["params"]):
            continue
        ids = [i for (i, _n) in H.pat_bindings(fb["params"][argpos])]
        if len(ids) != 1:
            continue
        pid = ids[0]
        for n, ps in H.walk_with_parents(fb["body"]):
            if not (n.get("k") == "path" and n["res"].get("r") == "local" and n["res"]["id"] == pid):
                continue
            child = n
            for q in reversed(ps):
                kq = q.get("k")
                if kq in ("ref", "try", "cast", "semi") or (kq == "call" and H.callee_name(q) in ("Some", "Ok")):
                    child = q
                    continue
                if kq == "struct":
                    f = _struct_field_of(q, child)
                    if f:
                        found.add(f)
                elif kq == "assign" and q["r"] is child:
                    root, path = H.place_root(q["l"])
                    if path:
                        found.add(path[-1])
                elif kq == "mcall" and q["name"] in ("insert_if_empty", "push", "extend", "insert", "replace") and child in q["args"]:
                    root, path = H.place_root(q["recv"])
                    if path:
                        found.add(path[-1])
                elif kq in ("call", "mcall"):
                    allargs = ([q["recv"]] if kq == "mcall" else []) + q["args"]
                    idx = [i for i, a in enumerate(allargs) if a is child]
                    if idx:
                        f = flow_field(crate, q.get("callee") or {}, idx[0], H.callee_name(q), depth + 1)
                        if f:
                            found.add(f)
                break
    return found.pop() if len(found) == 1 else None


def _follow_local(ex, lid, res, depth):
    for u in _uses_of_local(ex, lid):
        before = (res["kind"], res["f"], res["scrut_of"], res["count_of"])
        _follow(ex, u, res, depth + 1)
        if (res["kind"], res["f"], res["scrut_of"], res["count_of"]) != before:
            # keep following further uses only for still-missing facets
            if res["f"] is not None or res["scrut_of"] is not None or res["count_of"] is not None:
                return


def _fn_arg_kind(a):
    """Kind named by a function-valued argument: `PoolRead::get_class`, `PoolWrite::put_utf8`, or a closure calling one."""
    a0 = H.peel(a)
    if a0.get("k") == "path":
        nm = (a0["res"].get("path") or "").rsplit("::", 1)[-1]
        return pool_kind_of_name(nm) or nm
    if a0.get("k") == "closure":
        for x in H.walk(a0["body"]):
            if x.get("k") == "mcall" and pool_kind_of_name(x["name"]):
                return pool_kind_of_name(x["name"])
    return "?"


def _pattern_source(ex, lid, with_pat=False):
    """How local `lid` is bound: the path of pattern steps leading to it and the matched expression (None for closure parameters)."""
    for n in H.walk(ex.fn["body"]):
        k = n.get("k")
        pats = []
        if k in ("let", "letexpr") and "init" in n:
            pats.append((n["pat"], n["init"]))
        elif k == "match":
            for a in n["arms"]:
                pats.append((a["pat"], n["scrut"]))
        elif k == "for":
            pats.append((n["pat"], n["iter"]))
        elif k == "closure":
            for p in n["params"]:
                pats.append((p, None))
        elif k == "mcall" and iter_closure(n) is not None:
            for p in iter_closure(n)["params"]:
                pats.append((p, n["recv"]))
        for pat, init in pats:
            r = _find_in_pat(pat, lid, [])
            if r is not None:
                return (r, init, pat) if with_pat else (r, init)
    return (None, None, None) if with_pat else (None, None)


def _find_in_pat(p, lid, path):
    k = p.get("k")
    if k == "bind":
        if p["id"] == lid:
            return path
        if "sub" in p:
            return _find_in_pat(p["sub"], lid, path)
        return None
    if k in ("pref", "pbox", "pderef"):
        return _find_in_pat(p["pat"], lid, path)
    if k == "pstruct":
        for f in p["fields"]:
            r = _find_in_pat(f["pat"], lid, path + [("field", f["name"], p["res"].get("variant") or tyname(p["res"].get("adt") or p["res"].get("path")))])
            if r is not None:
                return r
        return None
    if k in ("ptuplestruct", "ptuple"):
        for i, x in enumerate(p["pats"]):
            nm = p["res"].get("variant") if k == "ptuplestruct" else None
            r = _find_in_pat(x, lid, path + [("pos", i, nm)])
            if r is not None:
                return r
        return None
    if k == "por":
        for x in p["pats"]:
            r = _find_in_pat(x, lid, path)
            if r is not None:
                return r
    return None


def classify_write(ex, prim):
    """kind / refine / field tag / const of a writer primitive from the expression that produces the written value."""
    res = {"kind": prim.get("kind"), "refine": None, "f": None, "const": prim.get("const")}
    if prim.get("kind") == "pad":
        return res
    _value(ex, prim["arg"], res, 0)
    return res


def _place_field(e):
    """Innermost tree-field name of a place expression (skipping LvIndex.index / tuple positions)."""
    e = H.peel(e)
    while True:
        k = e.get("k")
        if k == "field":
            if tyname(e.get("adt")) == "LvIndex" or e["name"].isdigit():
                e = H.peel(e["e"])
                continue
            return e["name"], e
        if k == "mcall" and e["name"] in ("as_inner", "as_ref", "as_deref", "as_class_name", "as_slice", "as_java_str", "clone", "as_str", "map", "iter"):
            e = H.peel(e["recv"])
            continue
        if k in ("try", "cast"):
            e = H.peel(e["e"])
            continue
        return None, e


def _value(ex, e, res, depth):
    if depth > 6:
        return
    e = H.peel(e, casts=False, tries=True)
    k = e.get("k")
    cv = H.const_value(e)
    if cv is not None and not isinstance(cv, (dict, list)):
        res["const"] = cv
        return
    if k == "cast":
        return _value(ex, e["e"], res, depth)
    if k == "if" and "else" in e:
        # `let branch = if let Some(t) = .. { f(t) } else { placeholder }`: the computed side names the kind
        for br in (e["then"], e["else"]):
            t = _tail_expr(br)
            if t is not None and H.const_value(t) is None:
                return _value(ex, t, res, depth + 1)
        return
    if k == "match":
        # the same choice spelled as a match: `match labels.get(l) { Some(t) => f(t), None => placeholder }`
        for a in e["arms"]:
            t = _tail_expr(a["body"])
            if t is not None and H.const_value(t) is None and not (H.diverges(a["body"]) or H.is_err_exit(a["body"])):
                return _value(ex, t, res, depth + 1)
        return
    if k == "call":
        nm = H.callee_name(e)
        if nm == "compute_signed_offset":
            res["kind"] = "label"
            return
        if nm == "from" and e["args"] and ((e.get("callee") or {}).get("path") or "").startswith("core::convert::From") and \
                (e.get("ty") or "") in ("u16", "u8", "u32") and tyname(H.peel(e["args"][0]).get("ty")) not in (None, "u8", "u16", "u32", "usize", "i8", "i16", "i32", "bool"):
            # `u16::from(x.access)` == `x.access.into()`: conversion of a flags struct
            res["kind"] = "flags:%s" % tyname(H.peel(e["args"][0]).get("ty"))
            f, _ = _place_field(e["args"][0])
            res["f"] = f
            return
        if nm in ("try_from", "from") and e["args"]:
            return _value(ex, e["args"][0], res, depth + 1)
        return
    if k == "mcall":
        nm = e["name"]
        c = e.get("callee") or {}
        owner = c.get("impl_ty") or c.get("path") or ""
        if nm == "put_optional":
            res["kind"] = "opt(%s)" % _fn_arg_kind(e["args"][1])
            f, rest = _place_field(e["args"][0])
            res["f"] = f or _local_field(ex, rest, depth)
            if res["kind"] == "opt(utf8)":
                res["refine"] = _utf8_type(ex, e["args"][0])
            return
        pk = pool_kind_of_name(nm) if "PoolWrite" in owner else None
        if pk:
            res["kind"] = pk
            if e["args"]:
                f, rest = _place_field(e["args"][0])
                res["f"] = f or _local_field(ex, rest, depth)
                if pk == "utf8":
                    res["refine"] = _utf8_type(ex, e["args"][0])
                    sv = H.const_value(e["args"][0])
                    if isinstance(sv, str):
                        res["strconst"] = sv
            return
        if nm in LABEL_CALLS and "Labels" in owner:
            res["kind"] = "label"
            if e["args"]:
                f, rest = _place_field(e["args"][0])
                res["f"] = f or _local_field(ex, rest, depth)
            return
        if nm == "into":
            res["kind"] = "flags:%s" % tyname(H.peel(e["recv"]).get("ty"))
            f, _ = _place_field(e["recv"])
            res["f"] = f
            return
        if nm == "to_atype":
            res["kind"] = "atype"
            return
        if nm == "get_arguments_size":
            res["note"] = "argsize"
            return
        if nm == "len":
            res["kind"] = "len"
            return
        return
    if k == "field":
        if tyname(e.get("adt")) == "LvIndex":
            res["kind"] = "lv"
        f, rest = _place_field(e)
        res["f"] = f or _local_field(ex, rest, depth)
        return
    if k == "path" and e["res"].get("r") == "local":
        lid = e["res"]["id"]
        path, init, pat = _pattern_source(ex, lid, with_pat=True)
        if path is None:
            # a parameter of a private helper (`write_local_variable_access(w, opcode, .., index.index)`): the kind of the value is the
            # kind of the argument at the helper's call sites, when they all agree
            _param_kind(ex, lid, res, depth)
            return
        if path and path[-1][0] == "field":
            res["f"] = path[-1][1]
            return
        if init is not None:
            i0 = H.peel(init, tries=True)
            if i0.get("k") == "mcall" and i0["name"] in RANGE_CALLS and path and path[-1][0] == "pos":
                res["kind"] = "label-range:%d" % path[-1][1]
                if i0["args"]:
                    f, rest = _place_field(i0["args"][0])
                    res["f"] = f or _local_field(ex, rest, depth)
                return
            # walk the pattern path over the initializer: tuple positions descend into a tuple expression, Some/Ok keep the expression
            cur = i0
            ok = True
            for step in path:
                if step[0] == "pos" and step[2] in ("Some", "Ok"):
                    continue
                if step[0] == "pos" and step[2] is None and H.peel(cur, tries=True).get("k") == "tuple":
                    es = H.peel(cur, tries=True)["es"]
                    if step[1] < len(es):
                        cur = es[step[1]]
                        continue
                ok = False
                break
            if ok:
                if _is_mut_binding(pat, lid) and H.const_value(cur) is not None:
                    return          # a mutable counter initialised with a literal is not a constant
                return _value(ex, cur, res, depth + 1)
        if path and path[-1][0] == "pos" and path[-1][2] is None:
            res["f"] = "#%d" % path[-1][1]
        return


class _BodyView:
    """the classification context of another function body of the same crate (only what `_value` reads)"""

    def __init__(self, ex, body):
        self.crate = ex.crate
        self.fn = body
        self.side = getattr(ex, "side", "w")
        self.index = getattr(ex, "index", None)


def _param_kind(ex, lid, res, depth):
    fn = ex.fn
    pos = None
    for i, prm in enumerate(fn.get("params") or []):
        if any(j == lid for j, _ in H.pat_bindings(prm)):
            pos = i
    if pos is None or depth > 3:
        return
    kinds = []
    for b in ex.crate.bodies:
        if not isinstance(b.get("body"), dict) or b is fn:
            continue
        for n in H.walk(b["body"]):
            if n.get("k") not in ("call", "mcall"):
                continue
            c = n.get("callee") or {}
            if (c.get("inst_key") or c.get("key")) != fn["key"]:
                continue
            args = ([n["recv"]] if n.get("k") == "mcall" else []) + list(n["args"])
            if pos >= len(args):
                kinds.append(None)
                continue
            r2 = {"kind": None, "refine": None, "f": None, "const": None}
            ex2 = _BodyView(ex, b)
            _value(ex2, args[pos], r2, depth + 1)
            kinds.append(r2.get("kind"))
    ks = set(kinds)
    if len(ks) == 1 and None not in ks:
        res["kind"] = kinds[0]


def _tail_expr(n):
    n = H.peel(n, refs=False)
    while n.get("k") == "block":
        if "tail" not in n:
            return None
        n = H.peel(n["tail"], refs=False)
    return n


def _is_mut_binding(pat, lid):
    if pat is None:
        return False
    for x in _walk_pat(pat):
        if x.get("k") == "bind" and x["id"] == lid:
            return "mut" in (x.get("mode") or "")
    return False


def _walk_pat(p):
    yield p
    k = p.get("k")
    if k == "bind" and "sub" in p:
        yield from _walk_pat(p["sub"])
    elif k in ("pref", "pbox", "pderef"):
        yield from _walk_pat(p["pat"])
    elif k in ("ptuplestruct", "ptuple", "por"):
        for x in p["pats"]:
            yield from _walk_pat(x)
    elif k == "pstruct":
        for f in p["fields"]:
            yield from _walk_pat(f["pat"])


def _local_field(ex, e, depth):
    """Field tag of a (pattern-bound) local used as a value."""
    l = H.local_of(e)
    if not l or depth > 4:
        return None
    path, init = _pattern_source(ex, l[0])
    if path is None:
        return None
    if path and path[-1][0] == "field":
        return path[-1][1]
    if init is not None and all(p[0] == "pos" and p[2] in ("Some", "Ok") for p in path):
        f, rest = _place_field(init)
        if f:
            return f
        return _local_field(ex, rest, depth + 1)
    if path and path[-1][0] == "pos" and path[-1][2] is None:
        # element of a tuple (closure parameter `(range, index)`, `for &(key, ref value) in pairs`)
        return "#%d" % path[-1][1]
    return None


def _utf8_type(ex, e):
    """The string newtype behind a utf8 argument (`field.name.as_inner()` -> FieldName)."""
    e = H.peel(e)
    while e.get("k") == "mcall" and e["name"] in ("as_inner", "as_ref", "as_deref", "as_java_str", "as_str", "map"):
        inner = H.peel(e["recv"])
        if e["name"] == "map":
            # `x.as_ref().map(|x| x.as_inner())`
            pass
        e = inner
    t = tyname(e.get("ty"))
    return t


# ---------------------------------------------------------------------------------------- normalisation
def annotate(ex, items):
    """Attach kind / refine / field tags to every primitive (recursively)."""
    for it in items:
        i = it.get("i")
        if i == "p":
            r = classify_read(ex, it) if ex.side == "r" else classify_write(ex, it)
            it.update({k: v for k, v in r.items() if v is not None or k not in it})
        elif i == "if":
            annotate(ex, it["then"])
            annotate(ex, it["else"])
        elif i == "match":
            for (_a, x) in it["arms"]:
                annotate(ex, x)
        elif i in ("rep", "loop", "attr", "withpos"):
            annotate(ex, it["body"])
    return items


VISITOR_SELECT = ("visit_", )


def _is_visitor_call(e):
    e = H.peel(e, tries=True)
    return e.get("k") in ("mcall", "call") and (H.callee_name(e) or "").startswith("visit_")


def normalize(ex, items):
    """Resolve conditionals with a diverging / visitor-selected side, form alts, merge counts into repetitions."""
    out = []
    for it in items:
        i = it.get("i")
        if i == "if":
            t, e = normalize(ex, it["then"]), normalize(ex, it["else"])
            tdiv = H.diverges(it["tn"]) or H.is_err_exit(it["tn"])
            ediv = it.get("en") is not None and (H.diverges(it["en"]) or H.is_err_exit(it["en"]))
            c0 = H.peel(it["cond"], refs=False)
            if ediv and not tdiv:
                out.extend(t)
            elif tdiv and not ediv:
                out.extend(e)
            elif ex.side == "r" and c0.get("k") == "letexpr" and _is_visitor_call(c0["init"]) and not e:
                out.extend(t)
            elif t == e:
                out.extend(t)
            else:
                out.append(dict(it, then=t, **{"else": e}))
        elif i == "match":
            arms = [(a, normalize(ex, x)) for (a, x) in it["arms"]]
            node = it["node"]
            live = [(a, x) for (a, x) in arms if not (H.diverges(a["body"]) or H.is_err_exit(a["body"]))]
            # reader: visitor-selected match (ControlFlow::Continue = the tree builder's path)
            if ex.side == "r" and _is_visitor_call(node["scrut"]):
                cont = [(a, x) for (a, x) in live if (H.pat_variant(a["pat"]) or (None, None))[1] == "Continue"]
                if len(cont) == 1:
                    out.extend(cont[0][1])
                    continue
            # reader: tag dispatch `match reader.read_u8()? { CONST => .. }`
            if ex.side == "r" and out and out[-1].get("i") == "p" and out[-1].get("scrut_of") is node:
                alt = {"i": "alt", "arms": {}, "node": node, "tagt": out[-1]["t"]}
                ok = True
                for (a, x) in live:
                    try:
                        vals = H.pat_int_values(a["pat"])
                    except ValueError:
                        vals = None
                    if not vals:
                        ok = False
                        break
                    for v in vals:
                        alt["arms"][v] = {"items": x, "label": _reader_arm_label(a), "labels": _reader_arm_labels(a), "sp": a.get("sp"), "pat": a["pat"], "multi": len(vals) > 1}
                if ok:
                    out.pop()
                    out.append(alt)
                    continue
            # reader: attribute dispatch
            if ex.side == "r" and _is_attr_dispatch(node):
                out.append({"i": "dispatch", "node": node, "arms": arms})
                continue
            # writer: every live arm starts with a constant tag byte
            if ex.side == "w":
                alt = {"i": "alt", "arms": {}, "node": node, "tagt": None, "dups": []}
                # only a dispatch over the variants of one of the repository's own enums is a tag dispatch
                # (`match u8::try_from(x) { Ok(..) => .., Err(..) => .. }` is an encoding choice, not a tag)
                ok = bool(live) and all((H.pat_variant(a["pat"]) or ("",))[0] and (H.pat_variant(a["pat"])[0] or "").startswith("duke::") for (a, _x) in live)
                for (a, x) in live:
                    if len(x) == 1 and x[0].get("i") == "alt":
                        for tag, arm in x[0]["arms"].items():
                            _alt_add(alt, tag, arm)
                        continue
                    if x and x[0].get("i") == "p" and x[0].get("const") is not None and x[0]["t"] == "u8" and isinstance(x[0]["const"], (int, str)):
                        tag = x[0]["const"]
                        if isinstance(tag, str):
                            tag = ord(tag)
                        _alt_add(alt, tag, {"items": x[1:], "label": _writer_arm_label(a), "sp": a.get("sp"), "pat": a["pat"], "tagp": x[0]})
                        alt["tagt"] = x[0]["t"]
                    else:
                        ok = False
                        break
                if ok:
                    out.append(alt)
                    continue
            # otherwise: all live arms equal -> that layout
            if live and all(_same(x, live[0][1]) for (_a, x) in live):
                out.extend(live[0][1])
                continue
            out.append(dict(it, arms=arms))
        elif i == "rep":
            body = normalize(ex, it["body"])
            it = dict(it, body=body)
            if ex.side == "w" and len(body) == 1 and body[0].get("i") == "if" and not body[0]["else"]:
                c0 = H.peel(body[0]["cond"], refs=False)
                if c0.get("k") == "letexpr":
                    f, _ = _place_field(c0["init"])
                    it["filtered"] = f or "?"
                    it["filter_node"] = c0
                    it["body"] = body[0]["then"]
            prev = out[-1] if out else None
            if prev is not None and prev.get("i") == "p" and _is_count_of(ex, prev, it):
                out.pop()
                it["cw"] = prev["t"]
                it["count"] = prev
            out.append(it)
        elif i in ("attr", "loop", "withpos"):
            out.append(dict(it, body=normalize(ex, it["body"])))
        else:
            out.append(it)
    # reader: a tag read whose match arms read nothing more (`match r.read_u8()? { FIELD => X, tag => bail }`)
    if ex.side == "r":
        for j, it in enumerate(out):
            if it.get("i") == "p" and it.get("scrut_of") is not None and it.get("scrut_direct"):
                node = it["scrut_of"]
                alt = {"i": "alt", "arms": {}, "node": node, "tagt": it["t"]}
                ok = True
                for a in node["arms"]:
                    if H.diverges(a["body"]) or H.is_err_exit(a["body"]):
                        continue
                    try:
                        vals = H.pat_int_values(a["pat"])
                    except ValueError:
                        vals = None
                    if not vals:
                        ok = False
                        break
                    for v in vals:
                        alt["arms"][v] = {"items": [], "label": _reader_arm_label(a), "labels": _reader_arm_labels(a), "sp": a.get("sp"), "pat": a["pat"], "multi": len(vals) > 1}
                if ok and alt["arms"]:
                    out[j] = alt
    return out


def _alt_add(alt, tag, arm):
    if tag in alt["arms"]:
        alt["dups"].append((tag, arm))
        prev = alt["arms"][tag]
        prev.setdefault("also", []).append(arm)
    else:
        alt["arms"][tag] = arm


def _same(a, b):
    return not diff(a, b, symmetric=True)


def _is_attr_dispatch(node):
    n = 0
    for a in node["arms"]:
        g = a.get("guard")
        if g is None:
            continue
        for x in H.walk(g):
            if x.get("k") == "bin" and x["op"] == "==":
                for s in (x["l"], x["r"]):
                    nm = H.const_name(s)
                    if nm and "class_constants::attribute::" in nm:
                        n += 1
    return n >= 2


def _reader_arm_label(a):
    for x in H.walk(a["body"]):
        c = H.ctor_of(x)
        if c and c[0] and c[0].startswith("duke::") and c[1] and not c[0].endswith(("Result", "Option")):
            return c[1]
    for x in H.walk(a["body"]):
        if x.get("k") in ("mcall", "call") and (H.callee_name(x) or "").startswith("visit"):
            return H.callee_name(x)
    return None


def _reader_arm_labels(a):
    out = []
    for x in H.walk(a["body"]):
        c = H.ctor_of(x)
        if c and c[0] and c[0].startswith("duke::") and c[1] and not c[0].endswith(("Result", "Option")) and c[1] not in out:
            out.append(c[1])
    return out


def _writer_arm_label(a):
    """Innermost enum variant named by the arm pattern."""
    best = None
    def rec(p):
        nonlocal best
        v = H.pat_variant(p)
        if v and v[1]:
            best = v[1]
        p0 = H.pat_peel(p)
        if p0.get("k") == "ptuplestruct":
            for x in p0["pats"]:
                if H.pat_variant(x):
                    rec(x)
    rec(a["pat"])
    return best


def _is_count_of(ex, prim, rep):
    """Is `prim` the element count of repetition `rep` (adjacent in the stream)?"""
    node = rep["node"]
    if ex.side == "r":
        if rep.get("vec"):
            # read_vec(size closure, ..): the primitive sits inside the size closure
            a0 = H.peel(node["args"][0])
            return any(x is prim["node"] for x in H.walk(a0))
        if rep.get("bound") is not None:
            # counting loop (see counted_loop): the bound is the value read, directly or through a let-bound local
            end = rep["bound"]
            if any(x is prim["node"] for x in H.walk(end)):
                return True
            l = H.local_of(H.peel(end, casts=True))
            if l:
                init = H.let_init_of(ex.fn["body"], l[0])
                return init is not None and any(x is prim["node"] for x in H.walk(init))
            return False
        if rep_iter(node) is not None:
            it = H.peel(rep_iter(node))
            if it.get("k") == "struct" and (it.get("adt") or "").endswith("Range"):
                end = next((f["e"] for f in it["fields"] if f["name"] == "end"), None)
                start = next((f["e"] for f in it["fields"] if f["name"] == "start"), None)
                if end is None or H.const_value(start) != 0:
                    return False
                if any(x is prim["node"] for x in H.walk(end)):
                    return True
                l = H.local_of(end)
                if l:
                    init = H.let_init_of(ex.fn["body"], l[0])
                    return init is not None and any(x is prim["node"] for x in H.walk(init))
        return False
    return prim.get("len") is not None


# ---------------------------------------------------------------------------------------- comparison
def show(items, depth=0):
    """Compact rendering of a layout (for reports)."""
    parts = []
    for it in items:
        i = it.get("i")
        if i == "p":
            s = it["t"]
            if it.get("kind"):
                s += ":" + it["kind"]
            if it.get("refine"):
                s += "<" + it["refine"] + ">"
            if it.get("f"):
                s += "@" + it["f"]
            if it.get("const") is not None and it.get("kind") != "pad":
                s += "=%s" % (it["const"],)
            parts.append(s)
        elif i == "rep":
            parts.append("rep%s[%s]" % ("(" + it["cw"] + ")" if it.get("cw") else "", show(it["body"], depth + 1)))
        elif i == "alt":
            if depth > 1:
                parts.append("alt{%d arms}" % len(it["arms"]))
            else:
                parts.append("alt{%s}" % ", ".join("%s: [%s]" % (k, show(v["items"], depth + 2)) for k, v in sorted(it["arms"].items(), key=lambda kv: str(kv[0]))))
        elif i == "ref":
            parts.append("->%s%s" % (it["name"], ("<" + tyname(it["ty"]) + ">") if it.get("ty") else ""))
        elif i == "attr":
            parts.append("attr(%s)[%s]" % (it["name"], show(it["body"], depth + 1)))
        elif i == "attrhdr":
            parts.append("attrhdr(%s,%s)" % (it["name"], it["n"]))
        elif i == "if":
            parts.append("if{[%s] else [%s]}" % (show(it["then"], depth + 1), show(it["else"], depth + 1)))
        elif i == "match":
            parts.append("match{%s}" % " | ".join("[%s]" % show(x, depth + 1) for (_a, x) in it["arms"]))
        elif i == "splice":
            parts.append("splice(%s)" % it.get("bufname"))
        elif i == "skip":
            parts.append("skip(%s)" % it.get("n"))
        elif i in ("loop", "withpos"):
            parts.append("%s[%s]" % (i, show(it["body"], depth + 1)))
        elif i == "dispatch":
            parts.append("dispatch")
        else:
            parts.append(i)
    return ", ".join(parts)


def norm_fn_name(name):
    if name in ("read", "write"):
        return ""
    for pre in ("read_", "write_"):
        if name.startswith(pre):
            return name[len(pre):]
    return name


class Comparer:
    """Coinductive comparison of a reader layout with a writer layout. Calls to corresponding functions (`read_x` / `write_x`) are
    accepted and queued as their own comparison; a call facing a non-call is expanded in place."""

    def __init__(self, expand_r, expand_w, max_expand=12):
        self.expand_r = expand_r      # ref item -> items or None
        self.expand_w = expand_w
        self.queue = []               # (reader ref, writer ref) accepted pairs
        self.max_expand = max_expand

    def prim(self, r, w, path):
        out = []
        if r["t"] != w["t"]:
            out.append("%s: reader %s, writer %s" % (path, r["t"], w["t"]))
        rk, wk = r.get("kind"), w.get("kind")
        if w.get("kind") == "pad":
            wk = None
        if (rk or None) != (wk or None) and not (wk in ("len",) and rk is None):
            out.append("%s: reader reads %s as %s, writer writes %s" % (path, r["t"], rk or "a plain value", wk or "a plain value"))
        if r.get("refine") and w.get("refine") and r["refine"] != w["refine"]:
            out.append("%s: reader interprets the string as %s, writer writes a %s" % (path, r["refine"], w["refine"]))
        if r.get("f") and w.get("f") and r["f"] != w["f"] and r["f"].startswith("#") == w["f"].startswith("#"):
            out.append("%s: reader stores into `%s`, writer writes `%s`" % (path, r["f"], w["f"]))
        return out

    def seq(self, rs, ws, path, budget=None):
        rs, ws = list(rs), list(ws)
        out = []
        n = 0
        exp = 0
        while rs or ws:
            n += 1
            if not rs or not ws:
                # trailing refs that expand to nothing?
                side, rest = ("reader", rs) if rs else ("writer", ws)
                other = "writer" if rs else "reader"
                out.append("%s#%d: %s has %s more, %s has nothing" % (path, n, side, show(rest[:3]), other))
                break
            r, w = rs[0], ws[0]
            ri, wi = r.get("i"), w.get("i")
            p = "%s#%d" % (path, n)
            if ri == "ref" and wi == "ref":
                if norm_fn_name(r["name"]) == norm_fn_name(w["name"]) and tyname(r.get("ty")) == tyname(w.get("ty")):
                    self.queue.append((r, w))
                    rs.pop(0)
                    ws.pop(0)
                    continue
            if ri == "ref" or wi == "ref":
                exp += 1
                if exp > self.max_expand:
                    out.append("%s: too many nested sub-structure expansions" % p)
                    break
                if ri == "ref":
                    e = self.expand_r(r)
                    if e is None:
                        out.append("%s: reader calls %s, writer has %s" % (p, r["name"], show([w])))
                        break
                    rs[0:1] = e
                else:
                    e = self.expand_w(w)
                    if e is None:
                        out.append("%s: writer calls %s, reader has %s" % (p, w["name"], show([r])))
                        break
                    ws[0:1] = e
                n -= 1
                continue
            if ri != wi and not ({ri, wi} <= {"bytes", "splice"}):
                out.append("%s: reader %s, writer %s" % (p, show([r]), show([w])))
                break
            if ri == "p":
                out.extend(self.prim(r, w, p))
            elif ri == "rep":
                if r.get("cw") != w.get("cw"):
                    out.append("%s: element count is %s in the reader, %s in the writer" % (p, r.get("cw") or "implicit", w.get("cw") or "implicit"))
                out.extend(self.seq(r["body"], w["body"], p + "/rep"))
            elif ri == "alt":
                out.extend(self.alt(r, w, p))
            elif ri in ("if", "match", "unk", "loop", "dispatch"):
                out.append("%s: unresolved %s on both sides" % (p, ri))
            rs.pop(0)
            ws.pop(0)
        return out

    def alt(self, r, w, p):
        out = []
        if r.get("tagt") != w.get("tagt") and w.get("tagt"):
            out.append("%s: tag is %s in the reader, %s in the writer" % (p, r.get("tagt"), w.get("tagt")))
        for tag in sorted(set(r["arms"]) | set(w["arms"]), key=str):
            out.extend(self.alt_arm(r, w, tag, "%s/tag=%s" % (p, _tagshow(tag))))
        return out

    def alt_arm(self, r, w, tag, p):
        ra, wa = r["arms"].get(tag), w["arms"].get(tag)
        if ra is None:
            return ["%s: the writer emits tag %s (%s) which the reader rejects" % (p, _tagshow(tag), wa.get("label"))]
        if wa is None:
            return ["%s: the reader accepts tag %s (%s) which the writer never emits" % (p, _tagshow(tag), ra.get("label"))]
        out = self.seq(ra["items"], wa["items"], p)
        for extra in wa.get("also", []):
            out.extend(self.seq(ra["items"], extra["items"], p + "(alt)"))
        return out


def _tagshow(tag):
    if isinstance(tag, int) and 32 < tag < 127:
        return "%d('%s')" % (tag, chr(tag))
    return str(tag)


def diff(a, b, symmetric=False):
    """Structural difference of two layouts of the same side (used to merge equal branches)."""
    c = Comparer(lambda r: None, lambda w: None)
    if len(a) != len(b):
        return ["length"]
    out = []
    for x, y in zip(a, b):
        if x.get("i") != y.get("i"):
            return ["kind"]
        if x.get("i") == "p":
            if (x["t"], x.get("kind"), x.get("refine"), x.get("f")) != (y["t"], y.get("kind"), y.get("refine"), y.get("f")):
                out.append("prim")
        elif x.get("i") == "ref":
            if x["key"] != y["key"]:
                out.append("ref")
        elif x.get("i") == "rep":
            if x.get("cw") != y.get("cw") or diff(x["body"], y["body"]):
                out.append("rep")
        elif x.get("i") in ("bytes", "align4", "skip"):
            pass
        else:
            out.append("other")
    return out


def layout_of(crate, body, side):
    """(extractor, {buffer id: normalised items}) for one function."""
    ex = Extractor(crate, body, side)
    res = {}
    for b in buffers(ex.events):
        items = project(ex.events, b)
        annotate(ex, items)
        res[b] = normalize(ex, items)
    return ex, res


def param_buffer(body, side):
    """Local id of the stream parameter of a reader / writer function."""
    want = ("ClassRead",) if side == "r" else ("ClassWrite", "Vec<u8>")
    for p, t in zip(body["params"], body.get("inputs") or []):
        if any(w in t for w in want) and p.get("k") == "bind":
            return p["id"]
    return None
