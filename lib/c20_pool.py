"""C20 / R20.3: the hand-written constant-pool lookup used by the attribute guards (`pool_has_utf8`), decided by partial
evaluation (lib/tables.Evaluator, subclassed) instead of by the shape of the code.

The function is evaluated four times with a symbolic `index` and `value` and an abstract pool:
   no pool  |  pool.get(..) = None  |  Some(non-Utf8 entry)  |  Some(Utf8 { bytes })
What is decided:
 * every lookup into the pool uses the position  index - first_index  (polynomial identity; locals, casts, `usize::from`,
   `checked_sub`/`wrapping_sub`, `?`/let-else/match/if-let unwrapping are all evaluated away);
 * the result is Ok(bytes == value) for a Utf8 entry, and never Ok(true) in the other three situations (Err or Ok(false)).
`let .. else` == `match` == `if let` == `Option` combinators with closures (`map_or`, `and_then`, `is_some_and`, `ok_or_else`, ..)
== early `return`s all evaluate to the same abstract result."""
from lib import hir as H
from lib import tables as T
from lib.c20_util import Poly

POOL = T.sym("POOL")
INDEX = T.sym("index")
VALUE = T.sym("value")
BYTES = T.sym("?.bytes")


class PE(T.Evaluator):
    """Evaluator that keeps symbolic arithmetic/boolean operations structured: ("v", "op:<op>", [l, r])."""

    def __init__(self, scenario, **kw):
        super().__init__(calls=self._handlers(), **kw)
        self.scenario = scenario        # value returned by a lookup into the pool
        self.lookups = []               # abstract index values used

    # ---- structured operators, let-chains, indexing
    def ev(self, n, env):
        k = n.get("k")
        if k == "bin":
            op = n["op"]
            if op in ("&&", "||") and any(H.peel(x, refs=False).get("k") == "letexpr" for x in (n["l"], n["r"])):
                return T.sym("<let chain outside if>")
            l = self.ev(n["l"], env)
            if op == "&&" and l == ("b", False):
                return l
            if op == "||" and l == ("b", True):
                return l
            r = self.ev(n["r"], env)
            if l[0] == "i" and r[0] == "i" and op in ("+", "-", "*"):
                return ("i", {"+": l[1] + r[1], "-": l[1] - r[1], "*": l[1] * r[1]}[op])
            if l[0] == "b" and r[0] == "b" and op in ("&&", "||", "==", "!="):
                return ("b", {"&&": l[1] and r[1], "||": l[1] or r[1], "==": l[1] == r[1], "!=": l[1] != r[1]}[op])
            return ("v", "op:" + op, [l, r])
        if k == "un" and n.get("op") == "!":
            v = self.ev(n["e"], env)
            return ("b", not v[1]) if v[0] == "b" else ("v", "op:!", [v])
        if k == "index":
            base = self.ev(n["e"], env)
            i = self.ev(n["i"], env)
            if i[0] == "st" and i[1] == "RangeFull":
                return base
            if base == POOL:
                got = self._lookup(i)
                if got[0] == "v" and got[1] == "Some":
                    return got[2][0]
                raise T.Return(("err", "index out of bounds"))
            return T.sym("%s[%s]" % (T.show(base), T.show(i)))
        if k == "struct" and (n.get("adt") or "").endswith("RangeFull"):
            return ("st", "RangeFull", {})
        return super().ev(n, env)

    def if_(self, n, env):
        # `if a && let P = e && b { .. }`: evaluate the conjuncts left to right
        conj = []

        def flat(c):
            c0 = H.peel(c, refs=False)
            if c0.get("k") == "bin" and c0["op"] == "&&":
                flat(c0["l"])
                flat(c0["r"])
            else:
                conj.append(c0)
        flat(n["cond"])
        if len(conj) > 1 and any(c.get("k") == "letexpr" for c in conj):
            e2 = dict(env)
            pending = []
            for c in conj:
                if c.get("k") == "letexpr":
                    r = T.match_pat(c["pat"], self.ev(c["init"], e2), e2)
                    if r is None:
                        return T.sym("<undecided let chain>")
                    cv = ("b", r)
                else:
                    cv = self.ev(c, e2)
                if cv == ("b", False):
                    return self.ev(n["else"], env) if "else" in n else ("t", [])
                if cv != ("b", True):
                    pending.append(cv)
            if not pending:
                return self.ev(n["then"], e2)
            cond = pending[0]
            for p in pending[1:]:
                cond = ("v", "op:&&", [cond, p])
            return ("v", "if", [cond, self._branch(n["then"], e2), self._branch(n["else"], env) if "else" in n else ("t", [])])
        return super().if_(n, env)

    def _branch(self, x, env):
        try:
            return self.ev(x, dict(env))
        except T.Return as r:
            return ("v", "return", [r.v])

    # ---- calls the evaluation understands
    def _lookup(self, i):
        self.lookups.append(i)
        return self.scenario

    def _apply(self, f, args):
        if f[0] != "closure":
            return None
        node, cenv = f[1], dict(f[2])
        for p, a in zip(node["params"], args):
            T.match_pat(p, a, cenv)
        try:
            return self.ev(node["body"], cenv)
        except T.Return as r:
            return r.v

    def _handlers(self):
        def opt(v):
            return v[0] == "v" and v[1] in ("Some", "None", "Ok", "Err")

        def good(v):
            return v[1] in ("Some", "Ok")

        def payload(v):
            return v[2][0] if v[2] else ("t", [])

        def get(a):
            if len(a) == 2 and a[0] == POOL:
                return self._lookup(a[1])
            return None

        def sub(a):
            return ("v", "op:-", [a[0], a[1]]) if len(a) == 2 else None

        def unwrap(a):
            if a and opt(a[0]):
                if good(a[0]):
                    return payload(a[0])
                raise T.Return(("err", "panic"))
            return None

        def ok_or(a):
            if len(a) == 2 and opt(a[0]):
                return T.V("Ok", payload(a[0])) if good(a[0]) else T.V("Err", a[1])
            return None

        def ok_or_else(a):
            if len(a) == 2 and opt(a[0]):
                return T.V("Ok", payload(a[0])) if good(a[0]) else T.V("Err", self._apply(a[1], []) or T.sym("e"))
            return None

        def ok(a):
            if len(a) == 1 and opt(a[0]):
                return T.V("Some", payload(a[0])) if good(a[0]) else T.V("None")
            return None

        def map_(a):
            if len(a) == 2 and opt(a[0]):
                if not good(a[0]):
                    return a[0]
                r = self._apply(a[1], [payload(a[0])])
                return T.V(a[0][1], r) if r is not None else None
            return None

        def and_then(a):
            if len(a) == 2 and opt(a[0]):
                return a[0] if not good(a[0]) else self._apply(a[1], [payload(a[0])])
            return None

        def map_or(a):
            if len(a) == 3 and opt(a[0]):
                return self._apply(a[2], [payload(a[0])]) if good(a[0]) else a[1]
            return None

        def map_or_else(a):
            if len(a) == 3 and opt(a[0]):
                return self._apply(a[2], [payload(a[0])]) if good(a[0]) else self._apply(a[1], [])
            return None

        def is_some_and(a):
            if len(a) == 2 and opt(a[0]):
                return self._apply(a[1], [payload(a[0])]) if good(a[0]) else ("b", False)
            return None

        def filter_(a):
            if len(a) == 2 and opt(a[0]) and good(a[0]):
                c = self._apply(a[1], [payload(a[0])])
                if c == ("b", True):
                    return a[0]
                if c == ("b", False):
                    return T.V("None")
                return None
            return a[0] if len(a) == 2 and opt(a[0]) else None

        def unwrap_or(a):
            if len(a) == 2 and opt(a[0]):
                return payload(a[0]) if good(a[0]) else a[1]
            return None

        def unwrap_or_default(a):
            return None

        def ident(a):
            return a[-1] if a else None

        def tryconv(a):
            return T.V("Ok", a[-1]) if a else None

        def eq(a):
            return ("v", "op:==", [a[0], a[1]]) if len(a) == 2 else None

        def ne(a):
            return ("v", "op:!=", [a[0], a[1]]) if len(a) == 2 else None

        return {
            "get": get, "checked_sub": lambda a: T.V("Some", sub(a)) if len(a) == 2 else None, "wrapping_sub": sub,
            "unwrap": unwrap, "expect": lambda a: unwrap(a[:1]), "ok_or": ok_or, "ok_or_else": ok_or_else, "ok": ok,
            "map": map_, "and_then": and_then, "map_or": map_or, "map_or_else": map_or_else, "is_some_and": is_some_and,
            "is_ok_and": is_some_and, "filter": filter_, "unwrap_or": unwrap_or,
            "from": ident, "into": ident, "try_from": tryconv, "try_into": tryconv, "iter": ident, "as_slice": ident, "deref": ident,
            "as_bytes": ident, "to_vec": ident, "copied": ident, "cloned": ident,
            "eq": eq, "ne": ne,
        }


# ---------------------------------------------------------------------------------------------- abstract results
def to_poly(v):
    if v[0] == "i":
        return Poly.const(v[1])
    if v == INDEX:
        return Poly.var("index")
    if v[0] == "v" and v[1] in ("op:+", "op:-", "op:*") and len(v[2]) == 2:
        a, b = to_poly(v[2][0]), to_poly(v[2][1])
        if a is None or b is None:
            return None
        return a + b if v[1] == "op:+" else (a - b if v[1] == "op:-" else a * b)
    return None


def to_truth(v):
    """Boolean value as a function of the single atom `bytes == value`: (value if equal, value if different), or None."""
    if v[0] == "b":
        return (v[1], v[1])
    if v[0] == "v" and v[1] in ("op:==", "op:!=") and len(v[2]) == 2:
        if sorted(map(T.show, v[2])) == sorted(map(T.show, (BYTES, VALUE))):
            return (True, False) if v[1] == "op:==" else (False, True)
        return None
    if v[0] == "v" and v[1] == "op:!":
        t = to_truth(v[2][0])
        return None if t is None else (not t[0], not t[1])
    if v[0] == "v" and v[1] in ("op:&&", "op:||"):
        a, b = to_truth(v[2][0]), to_truth(v[2][1])
        if a is None or b is None:
            return None
        f = (lambda x, y: x and y) if v[1] == "op:&&" else (lambda x, y: x or y)
        return (f(a[0], b[0]), f(a[1], b[1]))
    if v[0] == "v" and v[1] == "if":
        c, t, e = (to_truth(unret(x)) for x in v[2])
        if c is None or t is None or e is None:
            return None
        return (t[0] if c[0] else e[0], t[1] if c[1] else e[1])
    return None


def unret(v):
    return v[2][0] if v[0] == "v" and v[1] == "return" else v


def outcome(v):
    """"err" | ("ok", truth) | None (not understood)"""
    v = unret(v)
    if v[0] == "err" or (v[0] == "v" and v[1] == "Err"):
        return "err"
    if v[0] == "v" and v[1] == "Ok" and len(v[2]) == 1:
        t = to_truth(v[2][0])
        return ("ok", t) if t is not None else None
    if v[0] == "v" and v[1] == "if":
        c = to_truth(unret(v[2][0]))
        t, e = outcome(v[2][1]), outcome(v[2][2])
        if c is None or t is None or e is None:
            return None
        if c[0] == c[1]:
            return t if c[0] else e
        if t == "err" and e == "err":
            return "err"
        if t != "err" and e != "err":
            return ("ok", (t[1][0] if c[0] else e[1][0], t[1][1] if c[1] else e[1][1]))
        return None
    return None


def show_outcome(o):
    if o is None:
        return "<not understood>"
    if o == "err":
        return "Err"
    return {(True, False): "Ok(bytes == value)", (False, True): "Ok(bytes != value)", (True, True): "Ok(true)", (False, False): "Ok(false)"}[o[1]]


def scenarios(other_variants):
    out = [("no pool", T.V("None"), None), ("index not in the pool", T.V("Some", POOL), T.V("None"))]
    for v in other_variants:
        out.append(("entry is %s" % v, T.V("Some", POOL), T.V("Some", T.V(v))))
    out.append(("entry is Utf8 { bytes }", T.V("Some", POOL), T.V("Some", T.V("Utf8"))))
    return out


def check(R, rid, fn, first_index, other_variants, inline=None):
    """other_variants: names of the pool-entry variants that are not Utf8 (each is tried as the entry found)"""
    results = {}
    lookups = []
    for name, pool, entry in scenarios(other_variants):
        ev = PE(entry if entry is not None else T.V("None"), inline=inline or {}, max_inline=3)
        try:
            res = ev.run_fn(fn, [pool, INDEX, VALUE])
        except Exception as e:        # evaluator limitation: report as not understood, never as success
            res = T.sym("<evaluation failed: %s>" % e)
        results[name] = (outcome(res), T.show(res)[:120])
        if entry is not None:
            lookups.append((name, list(ev.lookups)))
    # ---- index base
    want = Poly.var("index") - Poly.const(first_index)
    polys = [to_poly(i) for _, ls in lookups for i in ls]
    every = all(len(ls) >= 1 for _, ls in lookups)
    ok = every and bool(polys) and all(p == want for p in polys)
    R.inst(rid, "pool:index-base", ok, sp=fn["sp"], expect=want.show(),
           got=sorted({p.show() if p is not None else "<not an integer expression of index>" for p in polys}) if polys else "no lookup into the pool on the evaluated paths",
           detail="constant-pool index i (1-based) is element i-1 of the vector when every entry takes one slot")
    # ---- result table
    miss = ("err", ("ok", (False, False)))
    want_tbl = {k: miss for k in results}
    want_tbl["entry is Utf8 { bytes }"] = (("ok", (True, False)),)
    ok2 = all(results[k][0] in want_tbl[k] for k in want_tbl)
    bad = [k for k in want_tbl if results[k][0] not in want_tbl[k]]
    R.inst(rid, "pool:utf8-compare", ok2 and len(other_variants) >= 1, sp=fn["sp"],
           expect="Ok(bytes == value) for a Utf8 entry; Err or Ok(false) without pool, for an index outside the pool and for each of the %d other entry kinds" % len(other_variants),
           got={k: show_outcome(results[k][0]) + ("" if results[k][0] is not None else "  [" + results[k][1] + "]") for k in (bad or ["entry is Utf8 { bytes }"])},
           detail="the attribute name matches iff the entry is a Utf8 whose bytes equal the expected name")
