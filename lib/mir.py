"""A1 — forward interval analysis over the monomorphic MIR facts (DESIGN §3 A1, appendix C).

Nothing is executed: the abstract interpreter walks the MIR control-flow graph of every workspace function
reachable from the harness entry points and computes, per basic block, an over-approximation of the values of
integer places (interval, small explicit value set for discriminants and matched bytes, `phys` flag for
quantities bounded by memory or iteration count).  Obligations (Assert terminators, calls of panicking
leaves, allocation sinks) are then evaluated against the stabilised states.

Value  = (lo, hi, S, phys)   lo/hi Python ints or None (unbounded), S frozenset or None
Place key = (local, proj...) with proj in '*', ('f', n), ('dc', n); places with an index projection are untracked.
"""
import re
import sys

sys.setrecursionlimit(20000)

INT = {
    "u8": (0, 2**8 - 1), "u16": (0, 2**16 - 1), "u32": (0, 2**32 - 1), "u64": (0, 2**64 - 1), "u128": (0, 2**128 - 1),
    "usize": (0, 2**64 - 1),
    "i8": (-2**7, 2**7 - 1), "i16": (-2**15, 2**15 - 1), "i32": (-2**31, 2**31 - 1), "i64": (-2**63, 2**63 - 1),
    "i128": (-2**127, 2**127 - 1), "isize": (-2**63, 2**63 - 1),
    "bool": (0, 1), "char": (0, 0x10FFFF),
}
WIDE = {"u64", "usize", "i64", "isize", "u128", "i128"}
SETMAX = 96
PHYS_SMALL = 2**32          # increments up to this size keep a `phys` quantity `phys`
ALLOC_OK = 2**20            # an allocation request of at most this many elements is "small"
WS_CRATES = ("duke", "quill", "dukenest", "dukebox", "raw_class_file", "maven_dependency_resolver", "feather_build_rs", "fbr_entries")


def mk(lo, hi, s=None, phys=False):
    if s is not None:
        if not s:
            return None
        if len(s) > SETMAX:
            s = None
        else:
            lo, hi = min(s), max(s)
    return (lo, hi, s, phys)


TOP = (None, None, None, False)


def of_type(ty):
    r = INT.get(ty)
    return (r[0], r[1], None, False) if r else TOP


def is_int_ty(ty):
    return ty in INT


def const(v):
    return (v, v, frozenset([v]), abs(v) < 2**48)


def join(a, b):
    if a is None:
        return b
    if b is None:
        return a
    lo = None if a[0] is None or b[0] is None else min(a[0], b[0])
    hi = None if a[1] is None or b[1] is None else max(a[1], b[1])
    s = None
    if a[2] is not None and b[2] is not None:
        s = a[2] | b[2]
        if len(s) > SETMAX:
            s = None
    return (lo, hi, s, a[3] and b[3])


def meet(a, b):
    """None if empty."""
    lo = a[0] if b[0] is None else (b[0] if a[0] is None else max(a[0], b[0]))
    hi = a[1] if b[1] is None else (b[1] if a[1] is None else min(a[1], b[1]))
    if lo is not None and hi is not None and lo > hi:
        return None
    s = None
    if a[2] is not None or b[2] is not None:
        base = a[2] if a[2] is not None else b[2]
        s = frozenset(x for x in base if (lo is None or x >= lo) and (hi is None or x <= hi)
                      and (a[2] is None or x in a[2]) and (b[2] is None or x in b[2]))
        if not s:
            return None
        lo, hi = min(s), max(s)
    return (lo, hi, s, a[3] or b[3])


def remove_vals(a, vals):
    """a minus the listed values (otherwise-edge of a SwitchInt)."""
    if a[2] is not None:
        s = a[2] - frozenset(vals)
        if not s:
            return None
        return (min(s), max(s), s, a[3])
    lo, hi = a[0], a[1]
    vs = set(vals)
    if lo is not None:
        while lo in vs:
            lo += 1
    if hi is not None:
        while hi in vs:
            hi -= 1
    if lo is not None and hi is not None:
        if lo > hi:
            return None
        if hi - lo < SETMAX:
            s = frozenset(x for x in range(lo, hi + 1) if x not in vs)
            if not s:
                return None
            return (min(s), max(s), s, a[3])
    return (lo, hi, None, a[3])


def fits(v, ty):
    r = INT.get(ty)
    if r is None or v[0] is None or v[1] is None:
        return False
    return r[0] <= v[0] and v[1] <= r[1]


def clamp(v, ty):
    """value after being stored in a place of type ty (wraps -> type range)."""
    r = INT.get(ty)
    if r is None:
        return v
    if fits(v, ty):
        return v
    return (r[0], r[1], None, False)


def _num(x):
    if x is None:
        return "∞"
    if abs(x) < 10**6:
        return str(x)
    a = abs(x)
    sign = "-" if x < 0 else ""
    if a & (a - 1) == 0:
        return "%s2^%d" % (sign, a.bit_length() - 1)
    if (a + 1) & a == 0:
        return "%s2^%d-1" % (sign, a.bit_length())
    return "%s~2^%d" % (sign, a.bit_length())


def show(v):
    if v is None:
        return "⊥"
    if v[2] is not None and len(v[2]) <= 8:
        return "{%s}%s" % (",".join(str(x) for x in sorted(v[2])), "p" if v[3] else "")
    return "[%s,%s]%s" % (_num(v[0]), _num(v[1]), "p" if v[3] else "")


# ------------------------------------------------------------------ arithmetic

def arith(op, a, b, ty):
    """exact (unwrapped) result interval of a binary op, or TOP."""
    if a is None or b is None:
        return TOP
    al, ah, bl, bh = a[0], a[1], b[0], b[1]
    unb = al is None or ah is None or bl is None or bh is None
    if op in ("Add", "AddWithOverflow", "AddUnchecked"):
        if unb:
            return TOP
        phys = (a[3] and b[3]) or (a[3] and bh <= PHYS_SMALL and bl >= 0) or (b[3] and ah <= PHYS_SMALL and al >= 0)
        return (al + bl, ah + bh, None, phys)
    if op in ("Sub", "SubWithOverflow", "SubUnchecked"):
        if unb:
            return TOP
        return (al - bh, ah - bl, None, a[3] and bl >= 0)
    if op in ("Mul", "MulWithOverflow", "MulUnchecked"):
        if unb:
            return TOP
        c = [al * bl, al * bh, ah * bl, ah * bh]
        phys = (a[3] and 0 <= bl and bh <= 2**16) or (b[3] and 0 <= al and ah <= 2**16)
        return (min(c), max(c), None, phys)
    if op == "BitAnd":
        # x & mask with a non-negative side bounds the result
        cands = []
        if bl is not None and bl >= 0 and bh is not None:
            cands.append(bh)
        if al is not None and al >= 0 and ah is not None:
            cands.append(ah)
        if cands:
            return (0, min(cands), None, a[3] or b[3])
        return TOP
    if op in ("BitOr", "BitXor"):
        if unb or al < 0 or bl < 0:
            return TOP
        n = max(ah, bh).bit_length()
        return (0, (1 << n) - 1, None, a[3] and b[3])
    if op in ("Shr", "ShrUnchecked"):
        if unb or al < 0 or bl < 0:
            return TOP
        return (al >> bh, ah >> bl, None, a[3])
    if op in ("Shl", "ShlUnchecked"):
        if unb or al < 0 or bl < 0 or bh > 127:
            return TOP
        return (al << bl, ah << bh, None, False)
    if op == "Div":
        if unb or bl <= 0 or al < 0:
            return TOP
        return (al // bh, ah // bl, None, a[3])
    if op == "Rem":
        if bl is not None and bl > 0 and bh is not None and al is not None and al >= 0:
            hi = bh - 1 if ah is None else min(ah, bh - 1)
            return (0, hi, None, True)
        return TOP
    return TOP


CMP = {"Lt": "<", "Le": "<=", "Gt": ">", "Ge": ">=", "Eq": "==", "Ne": "!="}
NEG = {"<": ">=", "<=": ">", ">": "<=", ">=": "<", "==": "!=", "!=": "=="}


def cmp_const(op, a, b):
    """('b', bool) if the comparison is decided by the intervals."""
    if a is None or b is None or None in (a[0], a[1], b[0], b[1]):
        return None
    if op == "<":
        return True if a[1] < b[0] else (False if a[0] >= b[1] else None)
    if op == "<=":
        return True if a[1] <= b[0] else (False if a[0] > b[1] else None)
    if op == ">":
        return cmp_const("<", b, a)
    if op == ">=":
        return cmp_const("<=", b, a)
    if op == "==":
        if a[0] == a[1] == b[0] == b[1]:
            return True
        if a[1] < b[0] or b[1] < a[0]:
            return False
        if a[2] is not None and b[2] is not None and not (a[2] & b[2]):
            return False
        return None
    if op == "!=":
        r = cmp_const("==", a, b)
        return None if r is None else (not r)
    return None


def refine_cmp(op, a, b):
    """(a', b') under the assumption `a op b`; either may become None (infeasible)."""
    if op == "<":
        na = meet(a, (None, None if b[1] is None else b[1] - 1, None, False))
        nb = meet(b, (None if a[0] is None else a[0] + 1, None, None, False))
        return na, nb
    if op == "<=":
        na = meet(a, (None, b[1], None, False))
        nb = meet(b, (a[0], None, None, False))
        return na, nb
    if op == ">":
        nb, na = refine_cmp("<", b, a)
        return na, nb
    if op == ">=":
        nb, na = refine_cmp("<=", b, a)
        return na, nb
    if op == "==":
        m = meet(a, (b[0], b[1], b[2], False))
        if m is None:
            return None, None
        return m, meet(b, (m[0], m[1], m[2], False))
    if op == "!=":
        na, nb = a, b
        if b[0] is not None and b[0] == b[1]:
            na = remove_vals(a, [b[0]])
        if a[0] is not None and a[0] == a[1]:
            nb = remove_vals(b, [a[0]])
        return na, nb
    return a, b


# ------------------------------------------------------------------ places

def pkey(place):
    """tuple key of a MIR place, None if it has an index/subslice projection."""
    out = [place[0]]
    for e in place[1:]:
        if e == "*":
            out.append("*")
        elif isinstance(e, dict):
            if "f" in e:
                out.append(("f", e["f"]))
            elif "dc" in e:
                out.append(("dc", e["dc"]))
            else:
                return None
        else:
            return None
    return tuple(out)


def place_str(place, names=None):
    s = (names or {}).get(place[0], "_%d" % place[0]) if len(place) >= 1 else "?"
    for e in place[1:]:
        if e == "*":
            s = "*" + s if not s.startswith("*") else s
        elif isinstance(e, dict):
            if "f" in e:
                s += ".%d" % e["f"]
            elif "dc" in e:
                pass
            elif "i" in e:
                s += "[i]"
            else:
                s += "[..]"
    return s


class State:
    __slots__ = ("vals", "cmps", "eqs", "discrs", "refs", "aff")

    def __init__(self):
        self.vals = {}     # key -> Value
        self.cmps = {}     # bool local key -> (op, A, B) with A/B = ('k', key) | ('v', Value)
        self.eqs = {}      # temp key -> source key (same numeric value)
        self.discrs = {}   # temp key -> place key whose discriminant it holds
        self.refs = {}     # local -> place key it points to (shared or unique borrow of a local place)
        self.aff = {}      # key -> (parameter index, c): the value is <entry value of that parameter> + c

    def copy(self):
        s = State()
        s.vals = dict(self.vals)
        s.cmps = dict(self.cmps)
        s.eqs = dict(self.eqs)
        s.discrs = dict(self.discrs)
        s.refs = dict(self.refs)
        s.aff = dict(self.aff)
        return s

    def same(self, o):
        return (self.vals == o.vals and self.cmps == o.cmps and self.eqs == o.eqs and self.discrs == o.discrs and self.refs == o.refs
                and self.aff == o.aff)


def variant_excluded(st, k):
    """True if key k lies below a downcast `(P as V)` and st knows that the discriminant of P is not V
    (then st contributes nothing to the value of k at a join)."""
    body = k[1:] if k[0] == "D" else k
    for i in range(1, len(body)):
        e = body[i]
        if isinstance(e, tuple) and e[0] == "dc":
            d = st.vals.get(("D",) + body[:i])
            if d is not None:
                if d[2] is not None:
                    if e[1] not in d[2]:
                        return True
                elif d[0] is not None and d[1] is not None and not (d[0] <= e[1] <= d[1]):
                    return True
    return False


def join_state(a, b):
    if a is None:
        return b.copy()
    if b is None:
        return a.copy()
    s = State()
    for k, v in a.vals.items():
        w = b.vals.get(k)
        if w is not None:
            s.vals[k] = join(v, w)
        elif variant_excluded(b, k):
            s.vals[k] = v
    for k, w in b.vals.items():
        if k not in a.vals and variant_excluded(a, k):
            s.vals[k] = w
    for name in ("cmps", "eqs", "discrs", "refs"):
        da, db, ds = getattr(a, name), getattr(b, name), getattr(s, name)
        for k, v in da.items():
            if db.get(k) == v:
                ds[k] = v
    for k, v in a.aff.items():
        if b.aff.get(k) == v or (k not in b.aff and variant_excluded(b, k)):
            s.aff[k] = v
    for k, v in b.aff.items():
        if k not in a.aff and variant_excluded(a, k):
            s.aff[k] = v
    return s


def widen_state(old, new, fn):
    """new with every bound that moved since `old` pushed to the type range."""
    s = new.copy()
    for k, v in list(s.vals.items()):
        o = old.vals.get(k)
        if o is None or o == v:
            continue
        r = fn.key_range(k)
        lo = v[0] if o[0] == v[0] else (r[0] if r else None)
        hi = v[1] if o[1] == v[1] else (r[1] if r else None)
        s.vals[k] = (lo, hi, None, v[3] and o[3])
    return s


# ------------------------------------------------------------------ callee classification

def strip_generics(p):
    out = []
    d = 0
    for ch in p:
        if ch == "<":
            d += 1
        elif ch == ">":
            d -= 1
        elif d == 0:
            out.append(ch)
    return "".join(out).replace("::::", "::")


LEN_LIKE = re.compile(r"(::len$|::capacity$|::count_ones$|::leading_zeros$|::trailing_zeros$)")
POSITION_LIKE = re.compile(r"(Cursor::<T>::position$|::stream_position$)")

PANIC_PREFIXES = ("core::panicking::", "std::rt::begin_panic", "std::panicking::", "core::option::expect_failed", "core::option::unwrap_failed",
                  "core::result::unwrap_failed", "core::slice::index::slice_", "core::str::slice_error_fail", "alloc::raw_vec::capacity_overflow",
                  "alloc::alloc::handle_alloc_error", "std::process::exit", "std::process::abort", "core::cell::panic_already")
# method names (last path segment) of std/core/alloc/indexmap/java_string functions that abort on a bad argument
PANIC_METHODS = {
    "unwrap": ("Option", "Result"), "expect": ("Option", "Result"), "unwrap_err": ("Result",), "expect_err": ("Result",),
    "index": ("Index<",), "index_mut": ("IndexMut<",),
    "split_at": ("[T]", "str"), "split_at_mut": ("[T]", "str"), "copy_from_slice": ("[T]",), "clone_from_slice": ("[T]",),
    "swap": ("[T]", "Vec"), "rotate_left": ("[T]",), "rotate_right": ("[T]",), "copy_within": ("[T]",),
    "remove": ("Vec", "String", "VecDeque"), "swap_remove": ("Vec",), "insert": ("Vec<", "Vec::", "String"), "drain": ("Vec", "String", "VecDeque"),
    "split_off": ("Vec", "String", "VecDeque"), "insert_str": ("String",), "truncate": ("String",), "replace_range": ("String",),
    "borrow": ("RefCell",), "borrow_mut": ("RefCell",), "from_digit": ("char",), "to_digit": ("char",),
    "abs": ("impl i",), "pow": ("impl u", "impl i"), "next_power_of_two": ("impl u",), "unwrap_unchecked": ("Option", "Result"),
    "get_unchecked": ("",), "get_unchecked_mut": ("",), "from_utf8_unchecked": ("",), "unreachable_unchecked": ("",),
    "swap_indices": ("IndexMap", "IndexSet"), "move_index": ("IndexMap", "IndexSet"), "shift_insert": ("IndexMap", "IndexSet"),
}
# first non-receiver argument must be a constant in a range for these
CONST_ARG_METHODS = {"windows": (1, None), "chunks": (1, None), "chunks_exact": (1, None), "rchunks": (1, None), "step_by": (1, None),
                     "from_str_radix": (2, 36), "to_string_radix": (2, 36)}
ALLOC_METHODS = {"with_capacity": 0, "from_elem": 1, "reserve": 1, "reserve_exact": 1, "resize": 1, "with_capacity_and_hasher": 0,
                 "repeat": 1, "try_reserve": 1, "try_reserve_exact": 1, "with_capacity_in": 0, "from_elem_in": 1, "try_with_capacity": 0,
                 "resize_with": 1, "extend_from_within": 1}


def classify_callee(path):
    """-> ('panic', why) | ('constarg', name) | ('alloc', argindex) | None   for an external callee path."""
    base = strip_generics(path)
    name = base.rsplit("::", 1)[-1]
    for p in PANIC_PREFIXES:
        if path.startswith(p) or base.startswith(p):
            return ("panic", "explicit panic")
    if name in CONST_ARG_METHODS:
        return ("constarg", name)
    if name in ALLOC_METHODS and any(x in path for x in ("alloc::vec", "alloc::collections", "alloc::string", "std::collections", "indexmap::", "alloc::raw_vec", "alloc::slice", "alloc::str", "java_string::")):
        return ("alloc", ALLOC_METHODS[name])
    if name in ("sum", "product") and ("Iterator" in path or "iter::" in path) and not re.search(r"::(sum|product)::<f(32|64)>", path):
        # core's integer Sum/Product impls carry #[rustc_inherit_overflow_checks]: the accumulation panics on overflow in a checked build
        # (and wraps silently otherwise); unlike a checked_add chain nothing bounds it (seed C16-7)
        return ("panic", "integer %s over an iterator overflows unchecked" % name)
    owners = PANIC_METHODS.get(name)
    if owners:
        if any(o in path for o in owners):
            return ("panic", "%s may panic" % name)
    return None


# ------------------------------------------------------------------ per-function analysis

class Fn:
    def __init__(self, rec, prog):
        self.rec = rec
        self.prog = prog
        self.key = rec["key"]
        self.path = rec["path"]
        self.mir = rec["mir"]
        self.locals = self.mir["locals"]
        self.argc = self.mir["argc"]
        self.blocks = self.mir["blocks"]
        self.names = {}
        for n in self.mir["names"]:
            if len(n["p"]) == 1:
                self.names.setdefault(n["p"][0], n["name"])
        self.calls = {c["bb"]: c["callees"] for c in rec["calls"]}
        self.mut_borrowed = set()
        self.tuple_tys = {}
        for b in self.blocks:
            for s in b["s"]:
                if s["k"] == "assign" and s["rv"]["k"] in ("ref", "rawptr") and (s["rv"].get("mut") or s["rv"]["k"] == "rawptr"):
                    p = s["rv"]["p"]
                    if "*" not in p[1:]:
                        self.mut_borrowed.add(p[0])
        self.in_states = None
        self.param_in = None       # list of Values for params (top-down)
        self.ret = None            # {proj: Value}
        self.is_closure = "{closure#" in self.key.rsplit("::", 1)[-1]
        self.defs = None

    # -- types
    def local_ty(self, l):
        return self.locals[l] if 0 <= l < len(self.locals) else "?"

    def key_ty(self, key):
        """type string of a tracked key if derivable (bare local, tuple field of a local)."""
        if len(key) == 1:
            return self.local_ty(key[0])
        if len(key) == 2 and isinstance(key[1], tuple) and key[1][0] == "f":
            t = self.local_ty(key[0])
            if t.startswith("(") and t.endswith(")"):
                parts = split_top(t[1:-1])
                if key[1][1] < len(parts):
                    return parts[key[1][1]].strip()
        return None

    def key_range(self, key):
        t = self.key_ty(key)
        return INT.get(t) if t else None

    # -- reading
    def get(self, st, key):
        if key is None:
            return TOP
        v = st.vals.get(key)
        if v is not None:
            return v
        t = self.key_ty(key)
        return of_type(t) if t else TOP

    def resolve(self, st, place):
        """place key with leading deref of a known reference rewritten to the referent."""
        k = pkey(place)
        if k is None:
            return None
        for _ in range(4):
            if len(k) >= 2 and k[1] == "*" and k[0] in st.refs:
                k = st.refs[k[0]] + k[2:]
            else:
                break
        return k

    def operand(self, st, o):
        if "c" in o:
            v = o["c"].get("v")
            if isinstance(v, bool):
                v = int(v)
            if isinstance(v, int):
                return const(v), None
            return of_type(o["c"].get("ty", "?")), None
        p = o.get("cp") or o.get("mv")
        if p is None:
            return TOP, None
        k = self.resolve(st, p)
        return self.get(st, k), k

    # -- writing
    def kill(self, st, key):
        """forget everything stored under `key` (prefix) and every link that mentions it."""
        n = len(key)
        pref = lambda k: k[:n] == key or (k[0] == "D" and k[1:n + 1] == key)
        for d in (st.vals, st.eqs, st.discrs, st.cmps, st.aff):
            for k in [k for k in d if pref(k)]:
                del d[k]
        for k in [k for k, v in st.eqs.items() if pref(v)]:
            del st.eqs[k]
        for k in [k for k, v in st.discrs.items() if pref(v)]:
            del st.discrs[k]
        for k in [k for k, (op, a, b) in st.cmps.items() if (a[0] == "k" and pref(a[1])) or (b[0] == "k" and pref(b[1]))]:
            del st.cmps[k]
        if n == 1:
            st.refs.pop(key[0], None)
            for k in [k for k, v in st.refs.items() if v[0] == key[0]]:
                # a reference to a local that is overwritten keeps pointing at it; values below were killed above
                pass

    def kill_memory(self, st):
        """after a call or a write through a pointer: forget what may have changed behind references."""
        def volatile(k):
            if k[0] == "D":
                k = k[1:]
            root = k[0]
            if root in self.mut_borrowed:
                return True
            if "*" in k[1:]:
                t = self.local_ty(root)
                return not (t.startswith("&") and not t.startswith("&mut"))
            return False
        for d in (st.vals, st.discrs, st.eqs, st.aff):
            for k in [k for k in d if volatile(k)]:
                del d[k]
        for k in [k for k, v in st.discrs.items() if volatile(v)]:
            del st.discrs[k]
        for k in [k for k, v in st.eqs.items() if volatile(v)]:
            del st.eqs[k]
        for k in [k for k, (op, a, b) in st.cmps.items() if (a[0] == "k" and volatile(a[1])) or (b[0] == "k" and volatile(b[1]))]:
            del st.cmps[k]

    def setval(self, st, key, v):
        if key is None or v is None:
            return
        t = self.key_ty(key)
        if t and t in INT:
            v = clamp(v, t)
            if v == of_type(t):
                st.vals.pop(key, None)
                return
        elif v == TOP:
            st.vals.pop(key, None)
            return
        st.vals[key] = v

    def refine(self, st, key, v, depth=0):
        """meet the value of `key` with v; False if infeasible."""
        if key is None:
            return True
        cur = self.get(st, key)
        m = meet(cur, v)
        if m is None:
            return False
        m = (m[0], m[1], m[2], cur[3])
        if m != cur:
            st.vals[key] = m
        if depth < 4:
            src = st.eqs.get(key)
            if src is not None:
                if not self.refine(st, src, (m[0], m[1], m[2], False), depth + 1):
                    return False
            for t, s2 in list(st.eqs.items()):
                if s2 == key and t != key:
                    c = self.get(st, t)
                    mm = meet(c, (m[0], m[1], m[2], False))
                    if mm is None:
                        return False
                    if mm != c:
                        st.vals[t] = (mm[0], mm[1], mm[2], c[3])
        return True

    def copy_struct(self, st, src, dst):
        """copy every tracked sub-place of src to dst (moves/copies of aggregates)."""
        n = len(src)
        for k, v in list(st.vals.items()):
            if k[:n] == src and len(k) > n:
                st.vals[dst + k[n:]] = v
        for k, v in list(st.aff.items()):
            if k[:n] == src and len(k) > n:
                st.aff[dst + k[n:]] = v

    # -- statements
    def assign(self, st, s):
        place, rv = s["p"], s["rv"]
        dk = pkey(place)
        through_ptr = "*" in place[1:]
        dk_res = self.resolve(st, place) if dk is not None else None
        k = rv["k"]
        val = None
        post = []
        if k == "use":
            o = rv["a"]
            val, sk = self.operand(st, o)
            if sk is not None and dk_res is not None:
                post.append(("copy", sk))
                if sk in st.aff:
                    post.append(("aff", st.aff[sk]))
        elif k == "cast":
            v, sk = self.operand(st, rv["a"])
            to = rv["to"]
            if rv["ck"] == "int2int" and to in INT:
                if fits(v, to):
                    val = v
                    if sk is not None:
                        post.append(("eq", sk))
                        if sk in st.aff:
                            post.append(("aff", st.aff[sk]))
                else:
                    val = of_type(to)
            else:
                val = of_type(to)
        elif k == "bin":
            op = rv["op"]
            a, ak = self.operand(st, rv["a"])
            b, bk = self.operand(st, rv["b"])
            if op in CMP:
                c = cmp_const(CMP[op], a, b)
                val = const(int(c)) if c is not None else (0, 1, frozenset([0, 1]), False)
                A = ("k", ak) if ak is not None else ("v", a)
                B = ("k", bk) if bk is not None else ("v", b)
                post.append(("cmp", (CMP[op], A, B)))
            elif op.endswith("WithOverflow"):
                ty = self.key_ty(dk + (("f", 0),)) if dk is not None else None
                ex = arith(op, a, b, ty)
                af = self._aff_bin(st, op, ak, a, bk, b)
                if dk_res is not None:
                    self.kill(st, dk_res)
                    if af is not None:
                        st.aff[dk_res + (("f", 0),)] = af
                    if ty and fits(ex, ty):
                        st.vals[dk_res + (("f", 0),)] = ex
                        st.vals[dk_res + (("f", 1),)] = const(0)
                    else:
                        # remember the exact (unwrapped) result: valid once the overflow flag is known to be false
                        st.vals[dk_res + (("x", 0),)] = ex
                return
            elif op == "Cmp":
                val = (-1, 1, frozenset([-1, 0, 1]), False)
            elif op == "Offset":
                val = TOP
            else:
                ty = self.key_ty(dk) if dk is not None else None
                ex = arith(op, a, b, ty)
                val = ex if (ty is None or fits(ex, ty)) else of_type(ty)
                af = self._aff_bin(st, op, ak, a, bk, b)
                if af is not None and (ty is None or fits(ex, ty)):
                    post.append(("aff", af))
        elif k == "un":
            a, ak = self.operand(st, rv["a"])
            if rv["op"] == "Not":
                ty = self.key_ty(dk) if dk is not None else None
                if ty == "bool":
                    val = (0, 1, frozenset([0, 1]), False)
                    if a[0] == a[1] and a[0] is not None:
                        val = const(1 - a[0])
                    if ak is not None and ak in st.cmps:
                        op, A, B = st.cmps[ak]
                        post.append(("cmp", (NEG[op], A, B)))
                else:
                    val = of_type(ty) if ty else TOP
            elif rv["op"] == "Neg":
                val = (None if a[1] is None else -a[1], None if a[0] is None else -a[0], None, False)
            elif rv["op"] == "PtrMetadata":
                val = (0, 2**63 - 1, None, True)
            else:
                val = TOP
        elif k == "discr":
            pk_ = self.resolve(st, rv["p"])
            if pk_ is not None:
                val = st.vals.get(("D",) + pk_, (0, None, None, False))
                post.append(("discr", pk_))
            else:
                val = (0, None, None, False)
        elif k == "ref":
            pk_ = self.resolve(st, rv["p"])
            if dk_res is not None:
                self.kill(st, dk_res)
                if pk_ is not None and len(dk_res) == 1:
                    st.refs[dk_res[0]] = pk_
            return
        elif k == "agg":
            if dk_res is not None:
                self.kill(st, dk_res)
                ops = rv["ops"]
                base = dk_res
                if rv["ak"] == "adt" and rv.get("vname") != (rv.get("adt") or "").rsplit("::", 1)[-1]:
                    st.vals[("D",) + dk_res] = const(rv["variant"])
                    base = dk_res + (("dc", rv["variant"]),)
                for i, o in enumerate(ops):
                    v, sk = self.operand(st, o)
                    if v is not None and v != TOP:
                        st.vals[base + (("f", i),)] = v
                    if sk is not None:
                        if sk in st.aff:
                            st.aff[base + (("f", i),)] = st.aff[sk]
                        self.copy_struct(st, sk, base + (("f", i),))
                        if ("D",) + sk in st.vals:
                            st.vals[("D",) + base + (("f", i),)] = st.vals[("D",) + sk]
            elif through_ptr:
                self.kill_memory(st)
            return
        elif k == "repeat":
            val = None
        else:
            val = None
        # generic store
        if dk_res is None:
            if through_ptr or dk is None:
                self.kill_memory(st)
            return
        self.kill(st, dk_res)
        if through_ptr:
            pass
        if val is not None:
            self.setval(st, dk_res, val)
        for kind, x in post:
            if kind == "copy":
                self.copy_struct(st, x, dk_res)
                if ("D",) + x in st.vals:
                    st.vals[("D",) + dk_res] = st.vals[("D",) + x]
                if x in st.cmps:
                    st.cmps[dk_res] = st.cmps[x]
                if x in st.discrs:
                    st.discrs[dk_res] = st.discrs[x]
                if x[0] in st.refs and len(x) == 1 and len(dk_res) == 1:
                    st.refs[dk_res[0]] = st.refs[x[0]]
                if x != dk_res:
                    st.eqs[dk_res] = st.eqs.get(x, x)
            elif kind == "eq":
                if x != dk_res:
                    st.eqs[dk_res] = st.eqs.get(x, x)
            elif kind == "aff":
                st.aff[dk_res] = x
            elif kind == "cmp":
                st.cmps[dk_res] = x
            elif kind == "discr":
                st.discrs[dk_res] = x

    def _aff_bin(self, st, op, ak, a, bk, b):
        """affine fact of `a op b` when one side is <param> + c and the other a constant"""
        base = op.replace("WithOverflow", "").replace("Unchecked", "")
        def cst(v):
            return v[0] if (v is not None and v[0] is not None and v[0] == v[1]) else None
        if base == "Add":
            if ak is not None and ak in st.aff and cst(b) is not None:
                return (st.aff[ak][0], st.aff[ak][1] + cst(b))
            if bk is not None and bk in st.aff and cst(a) is not None:
                return (st.aff[bk][0], st.aff[bk][1] + cst(a))
        if base == "Sub" and ak is not None and ak in st.aff and cst(b) is not None:
            return (st.aff[ak][0], st.aff[ak][1] - cst(b))
        return None

    # -- calls
    def call(self, st, bi, t):
        """transfer of a call terminator; returns the state on the return edge."""
        callees = self.calls.get(bi, [])
        args = t["args"]
        dest = self.resolve(st, t["dest"]) if pkey(t["dest"]) is not None else None
        argv = [self.operand(st, a) for a in args]
        summary = None          # {proj: Value}
        handled = False
        aff_out = None          # {proj: (param of THIS function, c)} agreed by all callees
        if callees:
            rets = []
            for ce in callees:
                f2 = self.prog.fns.get(ce["key"])
                self._ext_aff = {}
                if f2 is not None:
                    self.prog.note_call(self, bi, f2, argv, st)
                    rets.append(f2.ret if f2.ret is not None else {})
                    a1 = {}
                    for proj, (pi, c) in (getattr(f2, "ret_aff", None) or {}).items():
                        if pi < len(argv) and argv[pi][1] is not None and argv[pi][1] in st.aff and not f2.is_closure:
                            q, d = st.aff[argv[pi][1]]
                            a1[proj] = (q, d + c)
                else:
                    rets.append(self.external(st, ce, args, argv))
                    a1 = dict(self._ext_aff)
                aff_out = a1 if aff_out is None else {k: v for k, v in aff_out.items() if a1.get(k) == v}
            # join of the callees' return summaries
            keys = set(rets[0].keys())
            for r in rets[1:]:
                keys &= set(r.keys())
            summary = {}
            for k in keys:
                v = None
                for r in rets:
                    v = join(v, r[k])
                summary[k] = v
            handled = True
        self.kill_memory(st)
        # a callee that receives `&mut local` may change it
        for a in args:
            p = a.get("cp") or a.get("mv")
            if p and len(p) == 1 and p[0] in st.refs:
                tgt = st.refs[p[0]]
                if self.local_ty(p[0]).startswith("&mut"):
                    self.kill(st, tgt)
        if dest is not None:
            self.kill(st, dest)
            if handled and summary:
                for proj, v in summary.items():
                    if v is not None and v != TOP:
                        if proj and proj[0] == "D":
                            st.vals[("D",) + dest + proj[1:]] = v
                        else:
                            self.setval(st, dest + proj, v)
            for proj, af in (aff_out or {}).items():
                st.aff[dest + proj] = af
        else:
            self.kill_memory(st)
        return st

    def external(self, st, ce, args, argv):
        """return summary {proj: Value} of an external callee (frozen models; default: nothing known)."""
        full = ce.get("full") or ""
        info = self.prog.callees.get(ce["key"]) or {}
        path = info.get("path") or full
        base = strip_generics(path)
        name = base.rsplit("::", 1)[-1]
        a0 = argv[0][0] if argv else TOP
        a0k = argv[0][1] if argv else None
        OK, SOME, CONT = ("dc", 0), ("dc", 1), ("dc", 0)
        if LEN_LIKE.search(base):
            return {(): (0, 2**63 - 1, None, True)}
        if POSITION_LIKE.search(path) or name in ("position",):
            return {(): (0, 2**64 - 1, None, True), (OK, ("f", 0)): (0, 2**64 - 1, None, True)}
        if name == "stream_position":
            return {(OK, ("f", 0)): (0, 2**64 - 1, None, True)}
        if name == "branch" and "try_trait::Try" in path:
            out = {}
            if a0k is not None:
                is_opt = "core::option::Option" in full.split(" as ")[0]
                src_ok = ("dc", 1) if is_opt else ("dc", 0)
                n = len(a0k) + 1
                for k, v in st.aff.items():
                    if k[:len(a0k)] == a0k and len(k) > len(a0k) and k[len(a0k)] == src_ok:
                        self._ext_aff[(("dc", 0),) + k[n:]] = v
                for k, v in st.vals.items():
                    if k[:len(a0k)] == a0k and len(k) > len(a0k) and k[len(a0k)] == src_ok:
                        out[(("dc", 0),) + k[n:]] = v
                    if k[0] == "D" and k[1:len(a0k) + 2] == a0k + (src_ok,):
                        out[("D", ("dc", 0)) + k[len(a0k) + 2:]] = v
                d = st.vals.get(("D",) + a0k)
                if d is not None and d[0] == d[1]:
                    # Ok/Some -> Continue(0); Err/None -> Break(1)
                    cont = (d[0] == 1) if is_opt else (d[0] == 0)
                    out[("D",)] = const(0 if cont else 1)
            return out
        if name == "from_residual" and "FromResidual" in path:
            is_opt = "core::option::Option" in full.split(" as ")[0]
            return {("D",): const(0 if is_opt else 1)}
        if name in ("try_from", "try_into") and ("convert::num" in path or "TryInto" in path or "TryFrom" in path):
            m = re.search(r"TryFrom<(\w+)> for (\w+)>", path) or re.search(r"TryFrom<(\w+)> for (\w+)>", full)
            tgt = None
            if m and m.group(2) in INT:
                tgt = m.group(2)
            else:
                m2 = re.search(r"<(\w+) as core::convert::Try(?:Into|From)<(\w+)>>", full)
                if m2:
                    tgt = m2.group(2) if "TryInto" in full else m2.group(1)
                    if tgt not in INT:
                        tgt = None
            if tgt:
                r = INT[tgt]
                mm = meet(a0, (r[0], r[1], None, False))
                if mm is not None:
                    return {(OK, ("f", 0)): (mm[0], mm[1], mm[2], a0[3])}
            return {}
        if name in ("from", "into") and argv:
            m2 = re.search(r"<(\w+) as core::convert::(?:Into|From)<(\w+)>>", full)
            if m2 and m2.group(1) in INT and m2.group(2) in INT:
                tgt = m2.group(2) if "Into<" in full else m2.group(1)
                if fits(a0, tgt):
                    return {(): a0}
            m3 = re.search(r"From<(\w+)> for (\w+)>::from", path)
            if m3 and m3.group(2) in INT and fits(a0, m3.group(2)):
                return {(): a0}
            return {}
        if name == "clone" and "clone::impls" in path:
            if a0k is not None and len(a0k) >= 1:
                # argument is a reference local; its referent was resolved by `operand` only for places, so look it up
                pass
            p = args[0].get("cp") or args[0].get("mv")
            if p and len(p) == 1 and p[0] in st.refs:
                return {(): self.get(st, st.refs[p[0]])}
            return {}
        if name in ("min", "max") and len(argv) == 2 and ("cmp::Ord" in path or "cmp::min" in path or "cmp::max" in path):
            a, b = argv[0][0], argv[1][0]
            if None not in (a[0], a[1], b[0], b[1]):
                if name == "min":
                    return {(): (min(a[0], b[0]), min(a[1], b[1]), None, a[3] or b[3])}
                return {(): (max(a[0], b[0]), max(a[1], b[1]), None, a[3] and b[3])}
            return {}
        if name == "next" and "Enumerate" in path:
            # Option<(usize, T)>: the index counts iterations
            return {(SOME, ("f", 0), ("f", 0)): (0, 2**63 - 1, None, True)}
        if name in ("from_be_bytes", "from_le_bytes", "from_ne_bytes"):
            return {}
        if name in ("to_digit",):
            return {(SOME, ("f", 0)): (0, 35, None, True)}
        if name in ("saturating_sub", "wrapping_sub") and len(argv) == 2:
            return {}
        return {}

    # -- fixpoint
    def entry_state(self):
        st = State()
        for i in range(self.argc):
            if self.local_ty(i + 1) in INT:
                st.aff[(i + 1,)] = (i, 0)
        if self.param_in:
            for i, v in enumerate(self.param_in):
                if v is not None and v != TOP:
                    self.setval(st, (i + 1,), v)
        for key, v in (self.prog.param_hints.get(self.key) or {}).items():
            self.setval(st, key, v)
        return st

    def succ(self, st, bi, b):
        """[(target, state)] of the feasible successors of block bi entered with st (st is consumed)."""
        for s in b["s"]:
            if s["k"] == "assign":
                self.assign(st, s)
            elif s["k"] == "setdiscr":
                k = self.resolve(st, s["p"])
                if k is not None:
                    self.kill(st, k)
                    st.vals[("D",) + k] = const(s["v"])
                else:
                    self.kill_memory(st)
            elif s["k"] == "intrinsic":
                self.kill_memory(st)
        t = b["t"]
        k = t["k"]
        if k == "goto":
            return [(t["t"], st)]
        if k == "drop":
            return [(t["t"], st)]
        if k == "call":
            if t.get("t") is None:
                self.call(st, bi, t)
                return []
            st = self.call(st, bi, t)
            return [(t["t"], st)]
        if k == "assert":
            # continuing edge: the asserted condition holds
            p = t["cond"].get("cp") or t["cond"].get("mv")
            if p is not None:
                ck = self.resolve(st, p)
                if ck is not None:
                    want = 1 if t["expected"] else 0
                    if ck in st.cmps:
                        op, A, B = st.cmps[ck]
                        if not self.assume(st, op if want else NEG[op], A, B):
                            return []
                    if len(ck) >= 2 and ck[-1] == ("f", 1) and not t["expected"]:
                        # overflow flag false: the exact result is the stored result
                        base = ck[:-1]
                        ex = st.vals.pop(base + (("x", 0),), None)
                        if ex is not None:
                            ty = self.key_ty(base + (("f", 0),))
                            if ty:
                                mm = meet(ex, of_type(ty))
                                if mm is None:
                                    return []
                                st.vals[base + (("f", 0),)] = (mm[0], mm[1], mm[2], ex[3])
                    if not self.refine(st, ck, const(want)):
                        return []
            return [(t["t"], st)]
        if k == "switch":
            d = t["d"]
            p = d.get("cp") or d.get("mv")
            out = []
            if p is None:
                v = d.get("c", {}).get("v")
                for val, tgt in t["ts"]:
                    if v == val:
                        return [(tgt, st)]
                return [(t["o"], st)]
            dk = self.resolve(st, p)
            cur = self.get(st, dk)
            listed = [v for v, _ in t["ts"]]
            for val, tgt in t["ts"]:
                if meet(cur, const(val)) is None:
                    continue
                s2 = st.copy()
                if self.assume_switch(s2, dk, val, None):
                    out.append((tgt, s2))
            rest = remove_vals(cur, listed)
            if rest is not None:
                s2 = st
                if self.assume_switch(s2, dk, None, listed):
                    out.append((t["o"], s2))
            return out
        if k in ("return", "unreachable", "resume", "abort", "tailcall", "coroutine_drop"):
            return []
        if k in ("yield", "asm"):
            return []
        return []

    def assume(self, st, op, A, B):
        a = self.get(st, A[1]) if A[0] == "k" else A[1]
        b = self.get(st, B[1]) if B[0] == "k" else B[1]
        na, nb = refine_cmp(op, a, b)
        if na is None or nb is None:
            return False
        if A[0] == "k" and not self.refine(st, A[1], (na[0], na[1], na[2], False)):
            return False
        if B[0] == "k" and not self.refine(st, B[1], (nb[0], nb[1], nb[2], False)):
            return False
        return True

    def assume_switch(self, st, dk, val, excluded):
        """the switch operand (key dk) equals val / is none of `excluded`."""
        if dk is None:
            return True
        cur = self.get(st, dk)
        nv = meet(cur, const(val)) if val is not None else remove_vals(cur, excluded)
        if nv is None:
            return False
        if dk in st.cmps:
            op, A, B = st.cmps[dk]
            truth = None
            if val is not None:
                truth = val != 0
            elif 0 in excluded:
                truth = True
            elif 1 in excluded:
                truth = False
            if truth is not None and not self.assume(st, op if truth else NEG[op], A, B):
                return False
        if dk in st.discrs:
            pk_ = ("D",) + st.discrs[dk]
            c = st.vals.get(pk_, (0, None, None, False))
            n2 = meet(c, const(val)) if val is not None else remove_vals(c, excluded)
            if n2 is None:
                return False
            st.vals[pk_] = n2
        return self.refine(st, dk, (nv[0], nv[1], nv[2], False))

    def loop_heads(self):
        """targets of retreating edges of a depth-first search from the entry block"""
        succs = []
        for b in self.blocks:
            t = b["t"]
            k = t["k"]
            out = []
            if k in ("goto", "drop", "assert"):
                out = [t["t"]]
            elif k == "call":
                out = [t["t"]] if t.get("t") is not None else []
            elif k == "switch":
                out = [x[1] for x in t.get("ts", [])] + [t["o"]]
            succs.append([x for x in out if x is not None])
        heads = set()
        color = {}
        stack = [(0, iter(succs[0]))]
        color[0] = 1
        while stack:
            v, it = stack[-1]
            adv = False
            for w in it:
                c = color.get(w, 0)
                if c == 0:
                    color[w] = 1
                    stack.append((w, iter(succs[w])))
                    adv = True
                    break
                if c == 1:
                    heads.add(w)
            if not adv:
                color[v] = 2
                stack.pop()
        return heads

    def analyse(self):
        nb = len(self.blocks)
        heads = self.loop_heads()
        ins = [None] * nb
        visits = [0] * nb
        ins[0] = self.entry_state()
        work = [0]
        rets = None
        steps = 0
        while work:
            bi = work.pop()
            steps += 1
            if steps > 200000:
                raise RuntimeError("interval analysis did not converge in %s" % self.path)
            b = self.blocks[bi]
            if b["cleanup"]:
                continue
            st = ins[bi].copy()
            for tgt, s2 in self.succ(st, bi, b):
                if self.blocks[tgt]["cleanup"]:
                    continue
                old = ins[tgt]
                if old is None:
                    ins[tgt] = s2
                    work.append(tgt)
                    continue
                j = join_state(old, s2)
                if j.same(old):
                    continue
                visits[tgt] += 1
                if (tgt in heads and visits[tgt] > 3) or visits[tgt] > 60:
                    j = widen_state(old, j, self)
                    if visits[tgt] > 100:
                        # give up precision entirely for this block
                        j.vals = {k: v for k, v in j.vals.items() if old.vals.get(k) == v}
                ins[tgt] = j
                work.append(tgt)
        self.in_states = ins
        # return summary
        ret = None
        for bi, b in enumerate(self.blocks):
            if b["t"]["k"] == "return" and ins[bi] is not None and not b["cleanup"]:
                st = ins[bi].copy()
                for s in b["s"]:
                    if s["k"] == "assign":
                        self.assign(st, s)
                r = {}
                for k, v in st.vals.items():
                    if k[0] == 0:
                        r[k[1:]] = v
                    elif k[0] == "D" and len(k) >= 2 and k[1] == 0:
                        r[("D",) + k[2:]] = v
                rs = State()
                rs.vals = {((0,) + k if k[:1] != ("D",) else ("D", 0) + k[1:]): v for k, v in r.items()}
                rs.aff = {k: v for k, v in st.aff.items() if k[0] == 0}
                ret = rs if ret is None else join_state(ret, rs)
        out = {}
        self.ret_aff = {}
        if ret is not None:
            for k, v in ret.vals.items():
                if k[0] == 0:
                    out[k[1:]] = v
                elif k[0] == "D" and len(k) >= 2 and k[1] == 0:
                    out[("D",) + k[2:]] = v
            for k, v in ret.aff.items():
                if k[0] == 0:
                    self.ret_aff[k[1:]] = v
        return out

    # -- description of operands for keys / reports
    def build_defs(self):
        d = {}
        for bi, b in enumerate(self.blocks):
            for s in b["s"]:
                if s["k"] == "assign" and len(s["p"]) == 1:
                    d.setdefault(s["p"][0], []).append(s["rv"])
            t = b["t"]
            if t["k"] == "call" and len(t["dest"]) == 1:
                d.setdefault(t["dest"][0], []).append({"k": "call", "bb": bi})
        self.defs = d

    def describe(self, o, depth=0):
        if self.defs is None:
            self.build_defs()
        if "c" in o:
            c = o["c"]
            return str(c.get("v", c.get("str", "const")))
        p = o.get("cp") or o.get("mv")
        if p is None:
            return "?"
        return self.describe_place(p, depth)

    def stable_describe(self, o):
        """like describe(), but without the source names of locals: parameters are `argN`, a local defined once is shown by its
        defining expression, a local assigned more than once is `var`.  Used in instance keys so that renaming a local does not
        rename the key (the readable form goes to the report text)."""
        self._noname = True
        try:
            return self.describe(o)
        finally:
            self._noname = False

    def describe_place(self, p, depth=0):
        l = p[0]
        noname = getattr(self, "_noname", False)
        if l in self.names and l > 0 and not noname:
            return place_str(p, self.names)
        if l <= self.argc and l > 0:
            return place_str(p, {l: "arg%d" % l})
        if noname and len(self.defs.get(l, [])) > 1:
            return place_str(p, {l: "var"})
        if depth > 6:
            return "…"
        ds = self.defs.get(l, [])
        if len(ds) != 1:
            return place_str(p, {l: "tmp"})
        rv = ds[0]
        k = rv["k"]
        suffix = ""
        for e in p[1:]:
            if isinstance(e, dict) and "f" in e:
                suffix += ".%d" % e["f"]
        if k == "use":
            return self.describe(rv["a"], depth + 1) + (suffix if suffix not in (".0",) else "")
        if k == "cast":
            return self.describe(rv["a"], depth + 1)
        if k == "bin":
            opn = {"Add": "+", "Sub": "-", "Mul": "*", "Div": "/", "Rem": "%", "Shl": "<<", "Shr": ">>", "BitAnd": "&", "BitOr": "|",
                   "AddWithOverflow": "+", "SubWithOverflow": "-", "MulWithOverflow": "*"}.get(rv["op"], rv["op"])
            return "(%s %s %s)" % (self.describe(rv["a"], depth + 1), opn, self.describe(rv["b"], depth + 1))
        if k == "un":
            return "%s(%s)" % (rv["op"], self.describe(rv["a"], depth + 1))
        if k == "call":
            cs = self.calls.get(rv["bb"], [])
            nm = "call"
            if cs:
                nm = strip_generics((self.prog.callees.get(cs[0]["key"]) or {}).get("path") or cs[0].get("full") or cs[0]["key"]).rsplit("::", 1)[-1]
                if nm in ("branch", "from_residual", "into", "from", "clone", "deref"):
                    t = self.blocks[rv["bb"]]["t"]
                    if t["args"]:
                        return self.describe(t["args"][0], depth + 1)
            return nm + "()"
        if k == "ref":
            return place_str(rv["p"], self.names) if (rv["p"][0] in self.names and not getattr(self, "_noname", False)) else self.describe_place(rv["p"], depth + 1)
        if k == "discr":
            return "discr(%s)" % self.describe_place(rv["p"], depth + 1)
        if k == "agg":
            return "(%s)" % ", ".join(self.describe(x, depth + 1) for x in rv["ops"][:3])
        return "tmp"


def split_top(s):
    out, d, cur = [], 0, ""
    for ch in s:
        if ch in "<([":
            d += 1
        elif ch in ">)]":
            d -= 1
        if ch == "," and d == 0:
            out.append(cur)
            cur = ""
        else:
            cur += ch
    if cur.strip():
        out.append(cur)
    return out


# ------------------------------------------------------------------ whole program

def contexts_of(P, f, limit=8):
    """Call-site contexts of a function whose parameters are constrained by its callers (None if it is an entry, a closure, referenced as
    a value, has more than `limit` call sites, or no call site was seen): the concrete executions of f are the union of its call sites, so
    a fact that holds under the parameter values of every single call site holds - even where the *join* of those values has lost the
    correlation between parameters (`opcode` in 21..25 with `first_opcode` 21, or 54..58 with 54)."""
    if f.param_in is None or f.is_closure:
        return None
    sv = getattr(P, "site_vals", {}).get(f.key)
    if not sv:
        return None
    out = []
    for v in (sv.values() if isinstance(sv, dict) else sv):
        if v not in out:
            out.append(v)
    if len(out) > limit:
        return None
    return out


def states_in_context(f, vec):
    """in_states of f analysed with the parameter values of one call site (f itself is left as it was)."""
    saved = (f.param_in, f.in_states, f.ret, getattr(f, "ret_aff", None))
    try:
        f.param_in = list(vec)
        f.analyse()
        return f.in_states
    finally:
        f.param_in, f.in_states, f.ret = saved[0], saved[1], saved[2]
        if saved[3] is not None:
            f.ret_aff = saved[3]


class Program:
    def __init__(self, mono):
        self.mono = mono
        self.callees = {c["key"]: c for c in mono["callees"]}
        self.fns = {}
        for rec in mono["fns"]:
            if rec.get("mir") and rec["crate"] in WS_CRATES:
                self.fns[rec["key"]] = Fn(rec, self)
        self.param_acc = {}      # callee key -> [Value per param]
        self.param_hints = {}    # closure key -> {place key: Value} facts about parameters supplied by std (Enumerate index)
        self.collect_calls = False
        self.call_sites = {}     # callee key -> [(caller Fn, bb, argv)]
        self.site_vals = {}      # callee key -> [[Value per param] per call site]   (last round)

    def note_call(self, caller, bi, callee, argv, st):
        if not self.collect_calls:
            return
        vals = [a[0] for a in argv]
        # closures invoked through Fn*::call*: (closure, (args...)) -> (env, args...)
        if callee.is_closure and len(argv) == 2 and callee.argc != 2:
            tk = argv[1][1]
            vals = [TOP]
            for i in range(callee.argc - 1):
                vals.append(caller.get(st, tk + (("f", i),)) if tk is not None else TOP)
        elif callee.is_closure and len(argv) == 2 and callee.argc == 2:
            tk = argv[1][1]
            vals = [TOP, caller.get(st, tk + (("f", 0),)) if tk is not None else TOP]
        acc = self.param_acc.setdefault(callee.key, [None] * callee.argc)
        for i in range(callee.argc):
            v = vals[i] if i < len(vals) else TOP
            acc[i] = join(acc[i], v) if acc[i] is not None else v
        self.call_sites.setdefault(callee.key, []).append((caller.key, bi))
        # per call site: the last visit of the block carries the converged values
        self.site_vals.setdefault(callee.key, {})[(caller.key, bi)] = [(vals[i] if i < len(vals) else TOP) for i in range(callee.argc)]

    def order(self):
        """callees before callers (reverse topological order of the key-level call graph; cycles in any order)."""
        g = {k: set() for k in self.fns}
        for k, f in self.fns.items():
            for cs in f.calls.values():
                for ce in cs:
                    if ce["key"] in self.fns:
                        g[k].add(ce["key"])
        seen, out = set(), []
        for root in sorted(g):
            if root in seen:
                continue
            stack = [(root, iter(sorted(g[root])))]
            seen.add(root)
            while stack:
                v, it = stack[-1]
                adv = False
                for w in it:
                    if w not in seen:
                        seen.add(w)
                        stack.append((w, iter(sorted(g[w]))))
                        adv = True
                        break
                if not adv:
                    out.append(v)
                    stack.pop()
        return out

    def enumerate_hints(self):
        """A closure handed to a method of an `Enumerate<..>` iterator (map, for_each, try_for_each, filter_map, ...) receives `(usize, T)`
        items whose first component counts iterations: bounded by the number of elements, like the index a `for` loop over enumerate() sees."""
        for f in self.fns.values():
            for bi, b in enumerate(f.blocks):
                t = b["t"]
                if b["cleanup"] or t["k"] != "call":
                    continue
                enum_recv = False
                for ce in f.calls.get(bi, []):
                    if ce["key"] in self.fns:
                        continue
                    full = ce.get("full") or ""
                    if full.startswith("<core::iter::adapters::enumerate::Enumerate<") and " as core::iter::traits::iterator::Iterator>::" in full:
                        enum_recv = True
                if not enum_recv:
                    continue
                clos = {}
                for s in b["s"]:
                    if s["k"] == "assign" and s["rv"]["k"] == "agg" and s["rv"].get("ak") == "closure" and len(s["p"]) == 1:
                        clos[s["p"][0]] = s["rv"]["closure"]
                for a in t.get("args", [])[1:]:
                    p = a.get("mv") or a.get("cp")
                    if p and len(p) == 1 and p[0] in clos:
                        g = self.fns.get(clos[p[0]])
                        if g is not None and g.argc == 2 and g.local_ty(2).startswith("(usize, "):
                            self.param_hints.setdefault(g.key, {})[(2, ("f", 0))] = (0, 2**63 - 1, None, True)

    def run(self, rounds=3):
        self.enumerate_hints()
        order = self.order()
        entry_keys = set(e["key"] for e in self.mono["entries"])
        for rnd in range(rounds):
            self.param_acc = {}
            self.call_sites = {}
            self.site_vals = {}
            self.collect_calls = True
            for k in order:
                f = self.fns[k]
                f.ret = f.analyse()
            # top-down: parameter values for the next round (entries and functions referenced as values stay Top)
            referenced = set()
            for f in self.fns.values():
                referenced.update(f.rec.get("refs", []))
            changed = False
            for k, f in self.fns.items():
                acc = self.param_acc.get(k)
                if k in entry_keys or acc is None or k in referenced or f.is_closure:
                    new = None      # callers outside the analysed set are possible: parameters stay unconstrained
                else:
                    new = [a if a is not None else TOP for a in acc]
                if new != f.param_in:
                    changed = True
                    f.param_in = new
            if not changed:
                break
        self.collect_calls = False
        return self


def load_program(F):
    """Program for the facts F, analysed; cached next to the facts (keyed by the hash of this file)."""
    import hashlib
    import os
    import pickle
    with open(__file__, "rb") as fh:
        h = hashlib.sha256(fh.read()).hexdigest()[:16]
    path = os.path.join(F.dir, "mir-%s.pickle" % h)
    if os.path.exists(path):
        try:
            with open(path, "rb") as fh:
                return pickle.load(fh)
        except Exception:
            pass
    P = Program(F.mono()).run()
    try:
        tmp = path + ".%d.tmp" % os.getpid()
        with open(tmp, "wb") as fh:
            pickle.dump(P, fh, protocol=pickle.HIGHEST_PROTOCOL)
        os.replace(tmp, path)
    except Exception:
        pass
    return P


def narrowing_casts(P, pred):
    """[(fn, block index, statement, source value, source type, target type)] for every int-to-int cast in functions
    selected by pred(fn) whose source value is not proved to fit the target type."""
    out = []
    for f in sorted(P.fns.values(), key=lambda f: f.path):
        if not pred(f):
            continue
        for bi, b in enumerate(f.blocks):
            if b["cleanup"] or f.in_states[bi] is None:
                continue
            st = f.in_states[bi].copy()
            for s in b["s"]:
                if s["k"] == "assign":
                    rv = s["rv"]
                    if rv["k"] == "cast" and rv["ck"] == "int2int" and rv["to"] in INT:
                        v, _ = f.operand(st, rv["a"])
                        a = rv["a"]
                        p = a.get("cp") or a.get("mv")
                        sty = a["c"].get("ty") if "c" in a else (f.key_ty(pkey(p)) if p and pkey(p) else None)
                        out.append((f, bi, s, v, sty, rv["to"], fits(v, rv["to"])))
                    f.assign(st, s)
    return out


def fn_key(path):
    """Function identity used in instance keys: crate, the enclosing type (if the item is a method), the item name and `{closure}`
    markers — but not the module path and not the items a nested fn happens to be declared in.  Moving a function to another module,
    hoisting a nested fn to module level, or adding/removing another closure in the same parent leaves the key unchanged."""
    p = re.sub(r"<impl [^>]*>+", "<impl>", path)
    p = re.sub(r"::<[^<>]*(?:<[^<>]*>[^<>]*)*>", "", p)          # generic argument lists
    p = re.sub(r"\{closure#\d+\}", "{closure}", p)
    segs = p.split("::")
    if len(segs) <= 2:
        return p
    crate = segs[0]
    # trailing closures belong to the nearest named item
    i = len(segs) - 1
    tail = []
    while i > 0 and segs[i] == "{closure}":
        tail.insert(0, segs[i])
        i -= 1
    name = segs[i]
    owner = segs[i - 1] if i - 1 > 0 else None
    keep = [crate]
    if owner and (owner[:1].isupper() or owner == "<impl>"):
        keep.append(owner)
    keep.append(name)
    return "::".join(keep + tail)
