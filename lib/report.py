"""Rule-instance bookkeeping, floors, known findings, evidence and violation reports."""
import json
import os
import time

VERIF = os.path.dirname(os.path.dirname(os.path.abspath(__file__)))
KNOWN = os.path.join(VERIF, "known_findings.json")
REVIEWED = os.path.join(VERIF, "reviewed_safe.json")


def load_known():
    """known_findings.json (the committed known-findings file). Entries: {property, key, what, witness}."""
    out = {}
    if not os.path.exists(KNOWN):
        return out
    with open(KNOWN) as f:
        d = json.load(f)
    for e in d.get("findings", []):
        out[(e["property"], e["key"])] = e
    # per-property staging files (same schema), merged into known_findings.json before release
    dd = KNOWN[:-5] + ".d"
    if os.path.isdir(dd):
        for fn in sorted(os.listdir(dd)):
            if fn.endswith(".json"):
                with open(os.path.join(dd, fn)) as f:
                    for e in json.load(f).get("findings", []):
                        out[(e["property"], e["key"])] = e
    return out


def load_reviewed():
    if not os.path.exists(REVIEWED):
        return {}
    with open(REVIEWED) as f:
        d = json.load(f)
    return {e["key"]: e for e in d.get("entries", [])}


class Report:
    def __init__(self, pid, tier="quick", seed=0):
        self.pid = pid
        self.tier = tier
        self.seed = seed
        self.t0 = time.time()
        self.instances = []      # (rule, key, ok, sp, detail, nontrivial)
        self.rules = {}          # rule -> description
        self.floors = {}         # rule -> (floor, measured)
        self.known = load_known()
        self.reviewed = load_reviewed()
        self.used_known = []
        self.used_reviewed = []
        self.violations = []
        self.notes = []
        self.extra = {}
        self.assumptions = []
        self._keys = set()

    # -- declaring rules ---------------------------------------------------------------
    def rule(self, rid, text):
        self.rules[rid] = text

    def note(self, s):
        self.notes.append(s)

    def assume(self, s):
        if s not in self.assumptions:
            self.assumptions.append(s)

    # -- recording instances -----------------------------------------------------------
    def inst(self, rule, key, ok, sp=None, detail=None, nontrivial=True, expect=None, got=None):
        """One evaluated rule instance. `key` is semantic (no line numbers)."""
        full = "%s:%s" % (rule, key)
        rec = {"rule": rule, "key": full, "ok": bool(ok), "sp": sp, "nontrivial": bool(nontrivial)}
        if detail is not None:
            rec["detail"] = detail
        if expect is not None:
            rec["expect"] = expect
        if got is not None:
            rec["got"] = got
        self.instances.append(rec)
        if not ok:
            self._violation(rec)
        return ok

    def anchor(self, rule, name, found, sp=None):
        """An anchor (function, type, constant, construct) the rule needs. Missing -> fail closed."""
        if not found:
            rec = {"rule": rule, "key": "%s:anchor-missing:%s" % (rule, name), "ok": False, "sp": sp,
                   "detail": "anchor `%s` not found in the current tree (rule cannot be evaluated; fail closed)" % name,
                   "nontrivial": False}
            self.instances.append(rec)
            self._violation(rec)
        return bool(found)

    def unrecognised(self, rule, where, what, sp=None):
        rec = {"rule": rule, "key": "%s:unrecognised-idiom:%s" % (rule, where), "ok": False, "sp": sp,
               "detail": "unrecognised construct in anchored function: %s" % what, "nontrivial": False}
        self.instances.append(rec)
        self._violation(rec)

    def floor(self, rule, minimum):
        n = sum(1 for r in self.instances if r["rule"] == rule and "anchor-missing" not in r["key"])
        self.floors[rule] = (minimum, n)
        if n < minimum:
            rec = {"rule": rule, "key": "%s:floor" % rule, "ok": False, "sp": None, "nontrivial": False,
                   "detail": "rule matched %d instances, fewer than the %d confirmed by reading (vacuity guard)" % (n, minimum)}
            self.instances.append(rec)
            self._violation(rec)

    def import_premise(self, sub, dep, selectors):
        """Copies the instances of `sub` (the report of property `dep`'s module, evaluated on the same facts) whose key starts with one of
        `selectors` (rule ids or key prefixes) into this report as premise instances `dep/<key>`.  A violated premise is a violation of this
        property as well (the rule concerns code on this property's own call path); recorded findings of `dep` stay `dep`'s business."""
        n = 0
        for r in sub.instances:
            if not any(r["rule"] == s or r["key"].startswith(s if s.endswith(":") else s + ":") for s in selectors):
                continue
            n += 1
            rec = dict(r)
            rec["rule"] = "%s/%s" % (dep, r["rule"])
            rec["key"] = "%s/%s" % (dep, r["key"])
            rec["nontrivial"] = False
            if not r["ok"] and r.get("known_finding"):
                rec["ok"] = True
                rec["detail"] = "recorded finding of %s (reported there)" % dep
                rec.pop("known_finding", None)
            self.instances.append(rec)
            self.rules.setdefault(rec["rule"], "premise, see %s %s: %s" % (dep, r["rule"], sub.rules.get(r["rule"], "")[:300]))
            if not rec["ok"]:
                self._violation(rec)
        return n

    def _violation(self, rec):
        k = (self.pid, rec["key"])
        if k in self.known:
            if rec["key"] not in [u["key"] for u in self.used_known]:
                self.used_known.append({"key": rec["key"], "what": self.known[k].get("what", ""), "sp": rec.get("sp")})
            rec["known_finding"] = True
            return
        self.violations.append(rec)

    # -- output ------------------------------------------------------------------------
    def finish(self, explanation, trusted_base=None):
        wall = time.time() - self.t0
        evdir = os.environ.get("VERIF_EVIDENCE_DIR") or os.path.join(VERIF, "evidence")
        vdir = os.path.join(evdir, "violations")
        os.makedirs(vdir, exist_ok=True)
        # stale violation reports of this property
        for f in os.listdir(vdir):
            if f.startswith(self.pid + "-"):
                os.remove(os.path.join(vdir, f))
        lines = []
        for u in self.used_known:
            lines.append("KNOWN-FINDING: property=%s %s [%s]" % (self.pid, u["what"], u["key"]))
        seen = set()
        n = 0
        for v in self.violations:
            if v["key"] in seen:
                continue
            seen.add(v["key"])
            n += 1
            path = os.path.join(vdir, "%s-%d.json" % (self.pid, n))
            with open(path, "w") as f:
                json.dump({"property": self.pid, "violation": v, "rule_text": self.rules.get(v["rule"], "")}, f, indent=1)
            lines.append("VIOLATION property=%s replay=%s" % (self.pid, path))
            lines.append("  rule %s  instance %s" % (v["rule"], v["key"]))
            if v.get("sp"):
                lines.append("  at %s" % v["sp"])
            if v.get("detail"):
                lines.append("  %s" % v["detail"])
            if "expect" in v or "got" in v:
                lines.append("  expected: %s" % (v.get("expect"),))
                lines.append("  found:    %s" % (v.get("got"),))

        distinct = set(r["key"] for r in self.instances if r["nontrivial"])
        per_rule = {}
        for r in self.instances:
            d = per_rule.setdefault(r["rule"], {"instances": 0, "violations": 0, "known_findings": 0})
            d["instances"] += 1
            if not r["ok"]:
                if r.get("known_finding"):
                    d["known_findings"] += 1
                else:
                    d["violations"] += 1
        for rid, (mn, got) in self.floors.items():
            per_rule.setdefault(rid, {})["floor"] = mn
            per_rule[rid]["measured"] = got
        for rid, text in self.rules.items():
            per_rule.setdefault(rid, {})["text"] = text
        # samples: a few instances per rule
        samples = []
        cnt = {}
        for r in self.instances:
            c = cnt.get(r["rule"], 0)
            if c < 4:
                cnt[r["rule"]] = c + 1
                s = {k: r[k] for k in ("rule", "key", "ok", "sp", "detail", "expect", "got") if k in r and r[k] is not None}
                samples.append(s)
        obligations = len(self.instances)
        discharged = sum(1 for r in self.instances if r["ok"])
        coverage = {
            "explanation": explanation,
            "evaluations": len(self.instances),
            "distinct_nontrivial": len(distinct),
            "rule": "one evaluation = one rule instance (a code site / table cell / field / obligation) identified by a "
                    "semantic key; non-trivial = the instance exercised the rule's comparison (not a bookkeeping entry); "
                    "distinct = distinct keys",
            "samples": samples,
            "obligations": obligations,
            "discharged": discharged,
            "rules": per_rule,
            "known_findings_printed": self.used_known,
            "reviewed_safe_used": self.used_reviewed,
            "notes": self.notes,
            "trusted_base": trusted_base or ["rustc nightly front end (HIR, typeck, const-eval, MIR)",
                                             "the reference tables under /verif/spec"],
        }
        coverage.update(self.extra)
        ev = {
            "property_id": self.pid,
            "tier": self.tier,
            "seed": int(self.seed),
            "level": "other",
            "coverage": coverage,
            "assumptions": self.assumptions,
            "wall_s": round(wall, 3),
            "violations": n,
        }
        with open(os.path.join(evdir, "%s.json" % self.pid), "w") as f:
            json.dump(ev, f, indent=1)
        if os.environ.get("VERIF_DUMP_INSTANCES"):
            # debugging aid: every instance with its facts
            with open(os.environ["VERIF_DUMP_INSTANCES"], "w") as f:
                json.dump(self.instances, f, indent=1, default=str)
        return lines, (1 if n else 0)
