//! Demonstration for fix 08f4638 (C01): a handler range with end_pc == code_length is valid (JVMS 4.7.3) and must be read.
//! Drop into duke/tests/ of a scratch copy: fails before the fix ("label for bytecode offset 2 out of bounds"), passes after.
use std::io::Cursor;
fn u16b(v: u16) -> [u8; 2] { v.to_be_bytes() }
fn u32b(v: u32) -> [u8; 4] { v.to_be_bytes() }
fn utf8(out: &mut Vec<u8>, s: &str) { out.push(1); out.extend(u16b(s.len() as u16)); out.extend(s.as_bytes()); }

#[test]
fn handler_range_may_end_at_code_length() {
    let mut o = Vec::new();
    o.extend(u32b(0xCAFEBABE)); o.extend(u16b(0)); o.extend(u16b(49));
    o.extend(u16b(8));
    utf8(&mut o, "A"); o.push(7); o.extend(u16b(1));
    utf8(&mut o, "java/lang/Object"); o.push(7); o.extend(u16b(3));
    utf8(&mut o, "m"); utf8(&mut o, "()V"); utf8(&mut o, "Code");
    o.extend(u16b(0x21)); o.extend(u16b(2)); o.extend(u16b(4)); o.extend(u16b(0)); o.extend(u16b(0));
    o.extend(u16b(1)); o.extend(u16b(0x0009)); o.extend(u16b(5)); o.extend(u16b(6)); o.extend(u16b(1));
    // code: 0: goto 1 (a7 00 03 would jump; keep it simple) -> 0: return(b1), 1: return(b1); handler at 0 covers [1, 2) = up to code_length
    let code = [0xb1u8, 0xb1];
    let mut body = Vec::new();
    body.extend(u16b(1)); body.extend(u16b(0)); body.extend(u32b(code.len() as u32)); body.extend(code);
    body.extend(u16b(1));                                   // one exception table entry
    body.extend(u16b(1)); body.extend(u16b(2)); body.extend(u16b(0)); body.extend(u16b(0)); // start 1, end 2 == code_length, handler 0, catch any
    body.extend(u16b(0));
    o.extend(u16b(7)); o.extend(u32b(body.len() as u32)); o.extend(body);
    o.extend(u16b(0));
    let class = duke::read_class(&mut Cursor::new(o)).expect("a handler range ending at code_length is valid");
    let code = class.methods[0].code.as_ref().unwrap();
    assert_eq!(code.exception_table.len(), 1);
    assert_eq!(Some(code.exception_table[0].end), code.last_label);
}
