//! C16: a class file of a few hundred bytes whose CONSTANT_Dynamic entries form a DAG (every level lists the next level K times
//! as bootstrap argument) is expanded into a tree of K^(L-1) nodes by the reader.
use std::io::Cursor;
fn u16b(v: u16) -> [u8; 2] { v.to_be_bytes() }
fn u32b(v: u32) -> [u8; 4] { v.to_be_bytes() }
fn utf8(out: &mut Vec<u8>, s: &str) { out.push(1); out.extend(u16b(s.len() as u16)); out.extend(s.as_bytes()); }

fn class_with_dag(levels: u16, fan: u16) -> Vec<u8> {
    let mut o = Vec::new();
    o.extend(u32b(0xCAFEBABE)); o.extend(u16b(0)); o.extend(u16b(55));
    let mut p = Vec::new();
    utf8(&mut p, "A"); p.push(7); p.extend(u16b(1));                      // 1, 2
    utf8(&mut p, "java/lang/Object"); p.push(7); p.extend(u16b(3));       // 3, 4
    utf8(&mut p, "m"); utf8(&mut p, "()V"); utf8(&mut p, "Code");          // 5, 6, 7
    utf8(&mut p, "BootstrapMethods");                                      // 8
    utf8(&mut p, "bsm"); utf8(&mut p, "()Ljava/lang/Object;");             // 9, 10
    p.push(12); p.extend(u16b(9)); p.extend(u16b(10));                     // 11 NameAndType bsm
    p.push(10); p.extend(u16b(2)); p.extend(u16b(11));                     // 12 Methodref A.bsm
    p.push(15); p.push(6); p.extend(u16b(12));                             // 13 MethodHandle invokestatic
    utf8(&mut p, "c"); utf8(&mut p, "Ljava/lang/Object;");                 // 14, 15
    p.push(12); p.extend(u16b(14)); p.extend(u16b(15));                    // 16 NameAndType c
    // 17 .. 17+levels-1: Dynamic(bsm #i, c)
    for i in 0..levels { p.push(17); p.extend(u16b(i)); p.extend(u16b(16)); }
    o.extend(u16b(17 + levels)); o.extend(p);
    o.extend(u16b(0x21)); o.extend(u16b(2)); o.extend(u16b(4)); o.extend(u16b(0)); o.extend(u16b(0));
    o.extend(u16b(1)); o.extend(u16b(0x0009)); o.extend(u16b(5)); o.extend(u16b(6)); o.extend(u16b(1));
    let code = [0x12u8, 17, 0x57, 0xb1];                                   // ldc #17; pop; return
    let mut body = Vec::new();
    body.extend(u16b(1)); body.extend(u16b(0)); body.extend(u32b(code.len() as u32)); body.extend(code);
    body.extend(u16b(0)); body.extend(u16b(0));
    o.extend(u16b(7)); o.extend(u32b(body.len() as u32)); o.extend(body);
    o.extend(u16b(1)); o.extend(u16b(8));
    let mut bm = Vec::new();
    bm.extend(u16b(levels));
    for i in 0..levels {
        bm.extend(u16b(13));
        if i + 1 < levels { bm.extend(u16b(fan)); for _ in 0..fan { bm.extend(u16b(17 + i + 1)); } } else { bm.extend(u16b(0)); }
    }
    o.extend(u32b(bm.len() as u32)); o.extend(bm);
    o
}

#[test]
fn dag_of_dynamic_constants_is_not_expanded_exponentially() {
    let bytes = class_with_dag(12, 4);          // 4^11 = 4_194_304 leaves from a file of
    eprintln!("class file size: {} bytes", bytes.len());
    let t = std::time::Instant::now();
    let r = duke::read_class(&mut Cursor::new(bytes));
    eprintln!("read took {:?}, ok = {}", t.elapsed(), r.is_ok());
    assert!(r.is_err(), "a {}-level DAG with fan-out 4 must not be expanded into millions of nodes", 12);
}

#[test]
fn small_dag_still_reads() {
    let bytes = class_with_dag(4, 2);
    assert!(duke::read_class(&mut Cursor::new(bytes)).is_ok());
}
