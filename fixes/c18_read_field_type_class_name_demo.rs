use duke::tree::field::FieldDescriptorSlice;
use java_string::JavaStr;

#[test]
fn empty_class_name_is_outside_the_grammar() {
	for bad in ["L;", "La.b;", "L[x;", "[L;", "[La;b;", "La//b;"] {
		let d = unsafe { FieldDescriptorSlice::from_inner_unchecked(JavaStr::from_str(bad)) };
		let r = d.parse();
		assert!(r.is_err(), "{bad:?} parsed as {r:?}");
	}
}
