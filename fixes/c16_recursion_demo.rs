//! Demonstration for the two C16 recursion fixes (drop into duke/tests/ of a scratch copy).
//! Before the fixes both inputs abort the process with a stack overflow (run each test in its own process);
//! after them duke::read_class returns Err.
use std::io::Cursor;
fn u16b(v: u16) -> [u8; 2] { v.to_be_bytes() }
fn u32b(v: u32) -> [u8; 4] { v.to_be_bytes() }
fn utf8(out: &mut Vec<u8>, s: &str) { out.push(1); out.extend(u16b(s.len() as u16)); out.extend(s.as_bytes()); }

fn header(o: &mut Vec<u8>, extra_pool: impl FnOnce(&mut Vec<u8>) -> u16) {
    o.extend(u32b(0xCAFEBABE)); o.extend(u16b(0)); o.extend(u16b(55));
    let mut pool = Vec::new();
    utf8(&mut pool, "A"); pool.push(7); pool.extend(u16b(1));                      // 1, 2
    utf8(&mut pool, "java/lang/Object"); pool.push(7); pool.extend(u16b(3));       // 3, 4
    utf8(&mut pool, "m"); utf8(&mut pool, "()V"); utf8(&mut pool, "Code");          // 5, 6, 7
    let n = extra_pool(&mut pool);
    o.extend(u16b(8 + n)); o.extend(pool);
    o.extend(u16b(0x21)); o.extend(u16b(2)); o.extend(u16b(4)); o.extend(u16b(0)); o.extend(u16b(0));
}

#[test]
fn self_referential_dynamic_constant() {
    let mut o = Vec::new();
    header(&mut o, |p| {
        utf8(p, "BootstrapMethods");                                   // 8
        utf8(p, "bsm"); utf8(p, "()Ljava/lang/Object;");               // 9, 10
        p.push(12); p.extend(u16b(9)); p.extend(u16b(10));             // 11 NameAndType bsm
        p.push(10); p.extend(u16b(2)); p.extend(u16b(11));             // 12 Methodref A.bsm
        p.push(15); p.push(6); p.extend(u16b(12));                     // 13 MethodHandle invokestatic
        utf8(p, "c"); utf8(p, "Ljava/lang/Object;");                   // 14, 15
        p.push(12); p.extend(u16b(14)); p.extend(u16b(15));            // 16 NameAndType c
        p.push(17); p.extend(u16b(0)); p.extend(u16b(16));             // 17 Dynamic(bsm #0, c)
        10
    });
    o.extend(u16b(1)); o.extend(u16b(0x0009)); o.extend(u16b(5)); o.extend(u16b(6)); o.extend(u16b(1));
    let code = [0x12u8, 17, 0x57, 0xb1];                               // ldc #17; pop; return
    let mut body = Vec::new();
    body.extend(u16b(1)); body.extend(u16b(0)); body.extend(u32b(code.len() as u32)); body.extend(code);
    body.extend(u16b(0)); body.extend(u16b(0));
    o.extend(u16b(7)); o.extend(u32b(body.len() as u32)); o.extend(body);
    // class attributes: BootstrapMethods with one method whose only argument is the constant itself
    o.extend(u16b(1)); o.extend(u16b(8));
    let mut bm = Vec::new();
    bm.extend(u16b(1)); bm.extend(u16b(13)); bm.extend(u16b(1)); bm.extend(u16b(17));
    o.extend(u32b(bm.len() as u32)); o.extend(bm);
    let r = duke::read_class(&mut Cursor::new(o));
    assert!(r.is_err(), "a constant that is its own bootstrap argument must be rejected");
}

#[test]
fn deeply_nested_element_values() {
    let depth = 200_000usize;
    let mut o = Vec::new();
    header(&mut o, |p| {
        utf8(p, "RuntimeVisibleAnnotations");                          // 8
        utf8(p, "LAnn;"); utf8(p, "value");                            // 9, 10
        3
    });
    o.extend(u16b(0));                                                 // methods
    o.extend(u16b(1)); o.extend(u16b(8));
    let mut a = Vec::new();
    a.extend(u16b(1));                                                 // num_annotations
    a.extend(u16b(9)); a.extend(u16b(1)); a.extend(u16b(10));          // annotation LAnn; with one pair `value`
    for _ in 0..depth { a.push(b'['); a.extend(u16b(1)); }             // [ [ [ ... one element each
    a.push(b'['); a.extend(u16b(0));                                   // innermost: empty array
    o.extend(u32b(a.len() as u32)); o.extend(a);
    let r = duke::read_class(&mut Cursor::new(o));
    assert!(r.is_err(), "element values nested 200000 deep must be rejected");
}
