use duke::tree::class::{ClassAccess, ClassFile, ObjClassName};
use duke::tree::field::FieldRef;
use duke::tree::method::code::{Code, Handle, Instruction, InstructionListEntry, InvokeDynamic};
use duke::tree::method::{Method, MethodAccess, MethodDescriptor, MethodName};
use duke::tree::version::Version;
use java_string::JavaString;
use quill::remapper::{ARemapperAsBRemapper};
use quill::tree::mappings::Mappings;

fn js(s: &str) -> JavaString { JavaString::from(s) }

#[test]
fn indy_descriptor_is_remapped() {
	let mappings: Mappings<2, ()> = quill::tiny_v2::read("tiny\t2\t0\ta\tb\nc\tOld\tNew\n".as_bytes()).unwrap();
	let remapper = ARemapperAsBRemapper(mappings.remapper_a_first_to_second().unwrap());

	let access: ClassAccess = 0x21u16.into();
	let mut class = ClassFile::new(Version::V1_8, access, ObjClassName::try_from(js("Holder")).unwrap(), None, vec![]);
	let maccess: MethodAccess = 0x9u16.into();
	let mut method = Method::new(maccess, MethodName::try_from(js("m")).unwrap(), MethodDescriptor::try_from(js("()V")).unwrap());
	let indy = InvokeDynamic {
		name: MethodName::try_from(js("run")).unwrap(),
		descriptor: MethodDescriptor::try_from(js("(LOld;)LOld;")).unwrap(),
		handle: Handle::GetStatic(FieldRef {
			class: ObjClassName::try_from(js("Old")).unwrap(),
			name: duke::tree::field::FieldName::try_from(js("f")).unwrap(),
			desc: duke::tree::field::FieldDescriptor::try_from(js("I")).unwrap(),
		}),
		arguments: vec![],
	};
	let mut code = Code::default();
	code.instructions.push(InstructionListEntry { label: None, frame: None, instruction: Instruction::InvokeDynamic(indy) });
	method.code = Some(code);
	class.methods.push(method);

	let out = dukebox::remap::remap_class(&remapper, class).unwrap();
	let Instruction::InvokeDynamic(indy) = &out.methods[0].code.as_ref().unwrap().instructions[0].instruction else { panic!() };
	assert_eq!(indy.descriptor.as_inner().as_str().unwrap(), "(LNew;)LNew;");
}
