use std::io::Cursor;
use duke::tree::module::ModuleFlags;

fn utf8(out: &mut Vec<u8>, s: &str) { out.push(1); out.extend((s.len() as u16).to_be_bytes()); out.extend(s.as_bytes()); }
fn class(out: &mut Vec<u8>, i: u16) { out.push(7); out.extend(i.to_be_bytes()); }
fn u16_(out: &mut Vec<u8>, v: u16) { out.extend(v.to_be_bytes()); }
fn u32_(out: &mut Vec<u8>, v: u32) { out.extend(v.to_be_bytes()); }

#[test]
fn local_variable_table_is_delivered() {
	let mut b = Vec::new();
	u32_(&mut b, 0xCAFEBABE); u16_(&mut b, 0); u16_(&mut b, 52);
	u16_(&mut b, 11);
	utf8(&mut b, "A"); class(&mut b, 1); utf8(&mut b, "java/lang/Object"); class(&mut b, 3);
	utf8(&mut b, "m"); utf8(&mut b, "()V"); utf8(&mut b, "Code"); utf8(&mut b, "LocalVariableTable"); utf8(&mut b, "x"); utf8(&mut b, "I");
	u16_(&mut b, 0x21); u16_(&mut b, 2); u16_(&mut b, 4); u16_(&mut b, 0); u16_(&mut b, 0);
	u16_(&mut b, 1); // methods
	u16_(&mut b, 0x9); u16_(&mut b, 5); u16_(&mut b, 6); u16_(&mut b, 1);
	u16_(&mut b, 7); u32_(&mut b, 31);
	u16_(&mut b, 0); u16_(&mut b, 1); u32_(&mut b, 1); b.push(0xb1); u16_(&mut b, 0); u16_(&mut b, 1);
	u16_(&mut b, 8); u32_(&mut b, 12); u16_(&mut b, 1);
	u16_(&mut b, 0); u16_(&mut b, 1); u16_(&mut b, 9); u16_(&mut b, 10); u16_(&mut b, 0);
	u16_(&mut b, 0); // class attributes

	let read = duke::read_class(&mut Cursor::new(b)).unwrap();
	let lv = read.methods[0].code.as_ref().unwrap().local_variables.clone();
	assert_eq!(lv.map(|v| v.len()), Some(1), "LocalVariableTable is parsed but never handed to the visitor");
}

#[test]
fn acc_open_is_0x0020() {
	// JVMS table 4.7.25-A: ACC_OPEN = 0x0020
	assert!(format!("{:?}", ModuleFlags::from(0x0020u16)).contains("open"));
	assert!(!format!("{:?}", ModuleFlags::from(0x0010u16)).contains("open"));
}
