//! Demonstration for the C16 `fix:` commits (drop into duke/tests/ of a scratch copy and run
//! `cargo test --offline -p duke --test c16_parser_abort_demo`).
//! Every case must return Err (or Ok) from duke::read_class; before the fixes each of them aborted with a panic.
use std::io::Cursor;
use std::panic::catch_unwind;

fn u16b(v: u16) -> [u8; 2] { v.to_be_bytes() }
fn u32b(v: u32) -> [u8; 4] { v.to_be_bytes() }

fn utf8(out: &mut Vec<u8>, s: &str) { out.push(1); out.extend(u16b(s.len() as u16)); out.extend(s.as_bytes()); }

/// class A { static void m() { <code> } } with optional attributes of the Code attribute (already encoded).
fn class_with_code(code: &[u8], code_attrs: &[(u16, Vec<u8>)]) -> Vec<u8> {
    let mut o = Vec::new();
    o.extend(u32b(0xCAFEBABE)); o.extend(u16b(0)); o.extend(u16b(52));
    o.extend(u16b(10)); // constant_pool_count
    utf8(&mut o, "A");                      // 1
    o.push(7); o.extend(u16b(1));           // 2 Class A
    utf8(&mut o, "java/lang/Object");       // 3
    o.push(7); o.extend(u16b(3));           // 4
    utf8(&mut o, "m");                      // 5
    utf8(&mut o, "()V");                    // 6
    utf8(&mut o, "Code");                   // 7
    utf8(&mut o, "LocalVariableTable");     // 8
    utf8(&mut o, "StackMapTable");          // 9
    o.extend(u16b(0x21)); o.extend(u16b(2)); o.extend(u16b(4));
    o.extend(u16b(0)); o.extend(u16b(0));   // interfaces, fields
    o.extend(u16b(1));                      // methods
    o.extend(u16b(0x0009)); o.extend(u16b(5)); o.extend(u16b(6)); o.extend(u16b(1));
    let mut body = Vec::new();
    body.extend(u16b(2)); body.extend(u16b(2)); body.extend(u32b(code.len() as u32)); body.extend(code);
    body.extend(u16b(0));                   // exception table
    body.extend(u16b(code_attrs.len() as u16));
    for (name, data) in code_attrs { body.extend(u16b(*name)); body.extend(u32b(data.len() as u32)); body.extend(data); }
    o.extend(u16b(7)); o.extend(u32b(body.len() as u32)); o.extend(body);
    o.extend(u16b(0));                      // class attributes
    o
}

fn must_not_panic(name: &str, bytes: Vec<u8>) {
    let r = catch_unwind(move || duke::read_class(&mut Cursor::new(bytes)).map(|_| ()));
    assert!(r.is_ok(), "{name}: duke::read_class panicked instead of returning a Result");
}

#[test]
fn truncated_last_instruction() {
    must_not_panic("bipush without operand", class_with_code(&[0x10], &[]));
}

#[test]
fn tableswitch_spanning_the_int_range() {
    let mut code = vec![0xaa, 0, 0, 0];
    code.extend(0i32.to_be_bytes());
    code.extend(i32::MIN.to_be_bytes());
    code.extend(i32::MAX.to_be_bytes());
    must_not_panic("tableswitch", class_with_code(&code, &[]));
}

#[test]
fn local_variable_range_past_65535() {
    let mut code = vec![0u8; 65535];
    *code.last_mut().unwrap() = 0xb1;
    let mut lvt = Vec::new();
    lvt.extend(u16b(1));
    lvt.extend(u16b(65534)); lvt.extend(u16b(2)); lvt.extend(u16b(5)); lvt.extend(u16b(6)); lvt.extend(u16b(0));
    must_not_panic("lvt", class_with_code(&code, &[(8, lvt)]));
}

#[test]
fn stack_map_offsets_past_65535() {
    let mut code = vec![0u8; 65535];
    *code.last_mut().unwrap() = 0xb1;
    let mut smt = Vec::new();
    smt.extend(u16b(2));
    smt.push(251); smt.extend(u16b(65000));
    smt.push(251); smt.extend(u16b(65000));
    must_not_panic("smt", class_with_code(&code, &[(9, smt)]));
}
