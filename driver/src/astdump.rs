//! AST-level facts: token trees of item-position macro calls (pre-expansion) and
//! `FormatArgs` templates (post-expansion).

use rustc_ast as ast;
use rustc_ast::token::Delimiter;
use rustc_ast::tokenstream::{TokenStream, TokenTree};
use rustc_middle::ty::TyCtxt;
use rustc_span::source_map::SourceMap;
use rustc_span::Span;

use crate::jo;
use crate::json::J;

fn sm_span(sm: &SourceMap, span: Span) -> String {
    if span.is_dummy() {
        return "?".into();
    }
    let lo = sm.lookup_char_pos(span.lo());
    let hi = sm.lookup_char_pos(span.hi());
    let name = match &lo.file.name {
        rustc_span::FileName::Real(r) => match r.local_path() {
            Some(p) => p.display().to_string(),
            None => format!("{:?}", lo.file.name),
        },
        other => format!("{:?}", other),
    };
    format!("{}:{}:{}-{}:{}", name, lo.line, lo.col.0 + 1, hi.line, hi.col.0 + 1)
}

fn tokens(sm: &SourceMap, ts: &TokenStream) -> J {
    let mut out = Vec::new();
    for tt in ts.iter() {
        match tt {
            TokenTree::Token(tok, _) => {
                let s = rustc_ast_pretty::pprust::token_to_string(tok).to_string();
                let kind = match &tok.kind {
                    ast::token::TokenKind::Ident(..) | ast::token::TokenKind::NtIdent(..) => "ident",
                    ast::token::TokenKind::Literal(_) => "lit",
                    ast::token::TokenKind::Lifetime(..) | ast::token::TokenKind::NtLifetime(..) => "lifetime",
                    ast::token::TokenKind::DocComment(..) => "doc",
                    _ => "punct",
                };
                let line = sm.lookup_char_pos(tok.span.lo()).line;
                out.push(jo! {"t": J::s(kind), "s": J::S(s), "line": J::I(line as i128)});
            }
            TokenTree::Delimited(dspan, _, delim, inner) => {
                let d = match delim {
                    Delimiter::Parenthesis => "(",
                    Delimiter::Brace => "{",
                    Delimiter::Bracket => "[",
                    Delimiter::Invisible(_) => "",
                };
                let line = sm.lookup_char_pos(dspan.open.lo()).line;
                out.push(jo! {"t": J::s("group"), "d": J::s(d), "ts": tokens(sm, inner), "line": J::I(line as i128)});
            }
        }
    }
    J::A(out)
}

struct MacCalls<'a> {
    sm: &'a SourceMap,
    out: Vec<J>,
    modpath: Vec<String>,
    unloaded_mods: usize,
}

impl<'a> MacCalls<'a> {
    fn items(&mut self, items: &[Box<ast::Item>]) {
        for it in items {
            match &it.kind {
                ast::ItemKind::MacCall(mc) => {
                    let name = mc.path.segments.iter().map(|s| s.ident.to_string()).collect::<Vec<_>>().join("::");
                    self.out.push(jo! {
                        "name": J::S(name),
                        "mod": J::S(self.modpath.join("::")),
                        "sp": J::S(sm_span(self.sm, it.span)),
                        "tokens": tokens(self.sm, &mc.args.tokens),
                    });
                }
                ast::ItemKind::MacroDef(ident, def) => {
                    self.out.push(jo! {
                        "name": J::s("macro_rules"),
                        "defines": J::S(ident.to_string()),
                        "mod": J::S(self.modpath.join("::")),
                        "sp": J::S(sm_span(self.sm, it.span)),
                        "tokens": tokens(self.sm, &def.body.tokens),
                    });
                }
                ast::ItemKind::Mod(_, ident, kind) => match kind {
                    ast::ModKind::Loaded(items, ..) => {
                        self.modpath.push(ident.to_string());
                        self.items(items);
                        self.modpath.pop();
                    }
                    ast::ModKind::Unloaded => self.unloaded_mods += 1,
                },
                _ => {}
            }
        }
    }
}

pub fn dump_mac_calls(sm: &SourceMap, krate: &ast::Crate) -> J {
    let mut v = MacCalls { sm, out: Vec::new(), modpath: Vec::new(), unloaded_mods: 0 };
    v.items(&krate.items);
    jo! {"calls": J::A(v.out), "unloaded_mods": J::I(v.unloaded_mods as i128)}
}

struct FmtArgs<'a> {
    sm: &'a SourceMap,
    out: Vec<J>,
    /// macro_rules definitions inside modules loaded during expansion
    macro_defs: Vec<J>,
}

impl<'a, 'ast> ast::visit::Visitor<'ast> for FmtArgs<'a> {
    fn visit_item(&mut self, it: &'ast ast::Item) {
        if let ast::ItemKind::MacroDef(ident, def) = &it.kind {
            self.macro_defs.push(jo! {
                "defines": J::S(ident.to_string()),
                "sp": J::S(sm_span(self.sm, it.span)),
                "tokens": tokens(self.sm, &def.body.tokens),
            });
        }
        ast::visit::walk_item(self, it);
    }
    fn visit_expr(&mut self, e: &'ast ast::Expr) {
        if let ast::ExprKind::FormatArgs(fa) = &e.kind {
            let pieces: Vec<J> = fa
                .template
                .iter()
                .map(|p| match p {
                    ast::FormatArgsPiece::Literal(s) => J::S(s.to_string()),
                    ast::FormatArgsPiece::Placeholder(ph) => {
                        let idx = match ph.argument.index {
                            Ok(i) => i as i128,
                            Err(_) => -1,
                        };
                        jo! {"arg": J::I(idx), "trait": J::S(format!("{:?}", ph.format_trait))}
                    }
                })
                .collect();
            let args: Vec<J> = fa
                .arguments
                .all_args()
                .iter()
                .map(|a| {
                    let snippet = self.sm.span_to_snippet(a.expr.span).unwrap_or_default();
                    jo! {"sp": J::S(sm_span(self.sm, a.expr.span)), "src": J::S(snippet)}
                })
                .collect();
            self.out.push(jo! {
                "sp": J::S(sm_span(self.sm, e.span.source_callsite())),
                "inner_sp": J::S(sm_span(self.sm, fa.span)),
                "pieces": J::A(pieces),
                "args": J::A(args),
            });
        }
        ast::visit::walk_expr(self, e);
    }
}

pub fn dump_format_args(tcx: TyCtxt<'_>) -> (J, J) {
    let resolver = tcx.resolver_for_lowering().borrow();
    let krate = &resolver.1;
    let mut v = FmtArgs { sm: tcx.sess.source_map(), out: Vec::new(), macro_defs: Vec::new() };
    ast::visit::walk_crate(&mut v, krate);
    (J::A(v.out), J::A(v.macro_defs))
}
