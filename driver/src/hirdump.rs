//! Typed "HIR-lite": a JSON tree per body owner with resolved callees, ADT/variant
//! information for struct literals and patterns, const-evaluated pattern literals,
//! re-sugared `for` and `?`, macro provenance and expression types.

use rustc_hir as hir;
use rustc_hir::def::{CtorOf, DefKind, Res};
use rustc_hir::def_id::{DefId, LocalDefId};
use rustc_middle::ty::{self, Instance, Ty, TyCtxt, TypeckResults, TypingEnv};
use rustc_span::Span;

use crate::jo;
use crate::json::J;
use crate::util::*;

pub struct Dumper<'tcx> {
    pub tcx: TyCtxt<'tcx>,
    pub tr: &'tcx TypeckResults<'tcx>,
    pub owner: LocalDefId,
    pub n_nodes: usize,
}

fn opt(x: Option<J>) -> J {
    x.unwrap_or(J::Null)
}

impl<'tcx> Dumper<'tcx> {
    fn sp(&self, s: Span) -> J {
        J::S(span_str(self.tcx, s))
    }

    fn finish(&mut self, mut o: Vec<(&'static str, J)>, e: &hir::Expr<'tcx>) -> J {
        self.n_nodes += 1;
        if let Some(t) = self.tr.expr_ty_opt(e) {
            o.push(("ty", J::S(ty_str(t))));
            let ta = self.tr.expr_ty_adjusted(e);
            if ta != t {
                o.push(("tya", J::S(ty_str(ta))));
            }
        }
        o.push(("sp", self.sp(e.span)));
        if let Some(m) = mac_json(e.span) {
            o.push(("mac", m));
        }
        J::O(o)
    }

    pub fn eval_const(&self, did: DefId) -> J {
        const_value_json(self.tcx, did)
    }

    fn res_json(&self, res: Res, hir_id: hir::HirId) -> J {
        let tcx = self.tcx;
        match res {
            Res::Local(id) => {
                let name = tcx.hir_name(id).to_string();
                jo! {"r": J::s("local"), "id": J::I(id.local_id.as_u32() as i128), "name": J::S(name)}
            }
            Res::Def(kind, did) => {
                let mut o = vec![("r", J::s("def")), ("dk", J::S(format!("{:?}", kind)))];
                match kind {
                    DefKind::Ctor(of, _) => {
                        // constructor of a struct or of an enum variant
                        let parent = tcx.parent(did);
                        match of {
                            CtorOf::Variant => {
                                let adt = tcx.parent(parent);
                                o.push(("adt", J::S(def_path(tcx, adt))));
                                o.push(("variant", J::S(tcx.item_name(parent).to_string())));
                            }
                            CtorOf::Struct => {
                                o.push(("adt", J::S(def_path(tcx, parent))));
                            }
                        }
                        o.push(("path", J::S(def_path(tcx, did))));
                    }
                    DefKind::Variant => {
                        let adt = tcx.parent(did);
                        o.push(("adt", J::S(def_path(tcx, adt))));
                        o.push(("variant", J::S(tcx.item_name(did).to_string())));
                        o.push(("path", J::S(def_path(tcx, did))));
                    }
                    DefKind::Const { .. } | DefKind::AssocConst { .. } => {
                        o.push(("path", J::S(def_path(tcx, did))));
                        o.push(("key", J::S(def_key(tcx, did))));
                        o.push(("value", self.eval_const(did)));
                    }
                    DefKind::Fn | DefKind::AssocFn => {
                        o.push(("path", J::S(def_path(tcx, did))));
                        o.push(("key", J::S(def_key(tcx, did))));
                        let args = self.tr.node_args(hir_id);
                        self.push_callee_details(&mut o, did, args);
                    }
                    _ => {
                        o.push(("path", J::S(def_path(tcx, did))));
                    }
                }
                J::O(o)
            }
            Res::SelfCtor(impl_did) => {
                let t = tcx.type_of(impl_did).instantiate_identity().skip_norm_wip();
                jo! {"r": J::s("selfctor"), "adt": J::S(ty_str(t))}
            }
            Res::SelfTyAlias { alias_to, .. } => {
                let t = tcx.type_of(alias_to).instantiate_identity().skip_norm_wip();
                jo! {"r": J::s("selfty"), "adt": J::S(ty_str(t))}
            }
            other => jo! {"r": J::s("other"), "dbg": J::S(format!("{:?}", other))},
        }
    }

    /// Adds generic args, trait/impl info and (where possible) the resolved impl method.
    fn push_callee_details(
        &self,
        o: &mut Vec<(&'static str, J)>,
        did: DefId,
        args: ty::GenericArgsRef<'tcx>,
    ) {
        let tcx = self.tcx;
        if !args.is_empty() {
            o.push(("targs", J::A(args.iter().map(|a| J::S(any_str(a))).collect())));
        }
        o.push(("full", J::S(def_path_args(tcx, did, args))));
        if let Some(tr) = tcx.trait_of_assoc(did) {
            o.push(("trait", J::S(def_path(tcx, tr))));
            if let Some(self_ty) = args.types().next() {
                o.push(("self_ty", J::S(ty_str(self_ty))));
            }
            let env = TypingEnv::post_analysis(tcx, self.owner);
            let args = tcx.erase_and_anonymize_regions(args);
            if !rustc_middle::ty::TypeVisitableExt::has_non_region_infer(&args) {
                if let Ok(Some(inst)) = Instance::try_resolve(tcx, env, did, args) {
                    let idid = inst.def_id();
                    if idid != did {
                        o.push(("inst", J::S(def_path(tcx, idid))));
                        o.push(("inst_key", J::S(def_key(tcx, idid))));
                    }
                }
            }
        } else if let Some(imp) = tcx.impl_of_assoc(did) {
            let t = tcx.type_of(imp).instantiate_identity().skip_norm_wip();
            o.push(("impl_ty", J::S(ty_str(t))));
            if let Some(trr) = tcx.impl_opt_trait_ref(imp) {
                o.push(("impl_trait", J::S(def_path(tcx, trr.skip_binder().def_id))));
            }
        }
    }

    fn qpath(&self, q: &hir::QPath<'tcx>, hir_id: hir::HirId) -> J {
        let res = self.tr.qpath_res(q, hir_id);
        self.res_json(res, hir_id)
    }

    fn adt_of_ty(&self, t: Ty<'tcx>) -> Option<(String, ty::AdtDef<'tcx>)> {
        let mut t = t;
        loop {
            match t.kind() {
                ty::Ref(_, inner, _) => t = *inner,
                ty::Adt(def, _) => return Some((def_path(self.tcx, def.did()), *def)),
                _ => return None,
            }
        }
    }

    fn lit(&self, l: &hir::Lit, negated: bool) -> J {
        use rustc_ast::LitKind;
        match &l.node {
            LitKind::Str(s, _) => jo! {"t": J::s("str"), "v": J::S(s.to_string())},
            LitKind::ByteStr(b, _) | LitKind::CStr(b, _) => {
                jo! {"t": J::s("bytes"), "v": J::A(b.as_byte_str().iter().map(|x| J::I(*x as i128)).collect())}
            }
            LitKind::Byte(b) => jo! {"t": J::s("int"), "v": J::I(*b as i128), "byte": J::B(true)},
            LitKind::Char(c) => jo! {"t": J::s("char"), "v": J::S(c.to_string())},
            LitKind::Int(v, _) => {
                let v = v.get() as i128;
                jo! {"t": J::s("int"), "v": J::I(if negated { -v } else { v })}
            }
            LitKind::Float(s, _) => jo! {"t": J::s("float"), "v": J::S(s.to_string())},
            LitKind::Bool(b) => jo! {"t": J::s("bool"), "v": J::B(*b)},
            LitKind::Err(_) => J::Null,
        }
    }

    fn pat_expr(&self, p: &hir::PatExpr<'tcx>) -> J {
        match &p.kind {
            hir::PatExprKind::Lit { lit, negated } => self.lit(lit, *negated),
            hir::PatExprKind::Path(q) => self.qpath(q, p.hir_id),
        }
    }

    pub fn pat(&mut self, p: &hir::Pat<'tcx>) -> J {
        let tcx = self.tcx;
        let mut o: Vec<(&'static str, J)> = match &p.kind {
            hir::PatKind::Missing => vec![("k", J::s("pmissing"))],
            hir::PatKind::Wild => vec![("k", J::s("wild"))],
            hir::PatKind::Binding(mode, id, ident, sub) => {
                let mut o = vec![
                    ("k", J::s("bind")),
                    ("name", J::S(ident.to_string())),
                    ("id", J::I(id.local_id.as_u32() as i128)),
                    ("mode", J::S(format!("{:?}", mode.0).to_lowercase() + if mode.1.is_mut() { " mut" } else { "" })),
                ];
                if let Some(s) = sub {
                    o.push(("sub", self.pat(s)));
                }
                o
            }
            hir::PatKind::Struct(q, fields, rest) => {
                let res = self.qpath(q, p.hir_id);
                let fs: Vec<J> = fields
                    .iter()
                    .map(|f| jo! {"name": J::S(f.ident.to_string()), "pat": self.pat(f.pat)})
                    .collect();
                vec![("k", J::s("pstruct")), ("res", res), ("fields", J::A(fs)), ("rest", J::B(rest.is_some()))]
            }
            hir::PatKind::TupleStruct(q, pats, ddpos) => {
                let res = self.qpath(q, p.hir_id);
                let ps: Vec<J> = pats.iter().map(|x| self.pat(x)).collect();
                vec![
                    ("k", J::s("ptuplestruct")),
                    ("res", res),
                    ("pats", J::A(ps)),
                    ("ddpos", ddpos.as_opt_usize().map(|u| J::I(u as i128)).unwrap_or(J::Null)),
                ]
            }
            hir::PatKind::Or(pats) => {
                let ps: Vec<J> = pats.iter().map(|x| self.pat(x)).collect();
                vec![("k", J::s("por")), ("pats", J::A(ps))]
            }
            hir::PatKind::Never => vec![("k", J::s("pnever"))],
            hir::PatKind::Tuple(pats, ddpos) => {
                let ps: Vec<J> = pats.iter().map(|x| self.pat(x)).collect();
                vec![
                    ("k", J::s("ptuple")),
                    ("pats", J::A(ps)),
                    ("ddpos", ddpos.as_opt_usize().map(|u| J::I(u as i128)).unwrap_or(J::Null)),
                ]
            }
            hir::PatKind::Box(x) => vec![("k", J::s("pbox")), ("pat", self.pat(x))],
            hir::PatKind::Deref(x) => vec![("k", J::s("pderef")), ("pat", self.pat(x))],
            hir::PatKind::Ref(x, _, m) => vec![("k", J::s("pref")), ("mut", J::B(m.is_mut())), ("pat", self.pat(x))],
            hir::PatKind::Expr(pe) => vec![("k", J::s("pexpr")), ("e", self.pat_expr(pe))],
            hir::PatKind::Guard(x, g) => vec![("k", J::s("pguard")), ("pat", self.pat(x)), ("guard", self.expr(g))],
            hir::PatKind::Range(lo, hi, end) => vec![
                ("k", J::s("prange")),
                ("lo", lo.map(|x| self.pat_expr(x)).unwrap_or(J::Null)),
                ("hi", hi.map(|x| self.pat_expr(x)).unwrap_or(J::Null)),
                ("incl", J::B(matches!(end, hir::RangeEnd::Included))),
            ],
            hir::PatKind::Slice(a, m, b) => {
                let aa: Vec<J> = a.iter().map(|x| self.pat(x)).collect();
                let bb: Vec<J> = b.iter().map(|x| self.pat(x)).collect();
                vec![
                    ("k", J::s("pslice")),
                    ("before", J::A(aa)),
                    ("mid", m.map(|x| self.pat(x)).unwrap_or(J::Null)),
                    ("after", J::A(bb)),
                ]
            }
            hir::PatKind::Err(_) => vec![("k", J::s("perr"))],
        };
        if let Some(t) = self.tr.node_type_opt(p.hir_id) {
            o.push(("ty", J::S(ty_str(t))));
        }
        o.push(("sp", J::S(span_str(tcx, p.span))));
        J::O(o)
    }

    fn block(&mut self, b: &hir::Block<'tcx>) -> J {
        let mut stmts = Vec::new();
        for s in b.stmts {
            match &s.kind {
                hir::StmtKind::Let(l) => {
                    let mut o = vec![("k", J::s("let")), ("pat", self.pat(l.pat))];
                    if let Some(i) = l.init {
                        o.push(("init", self.expr(i)));
                    }
                    if let Some(e) = l.els {
                        o.push(("els", self.block(e)));
                    }
                    o.push(("sp", self.sp(s.span)));
                    if let Some(m) = mac_json(s.span) {
                        o.push(("mac", m));
                    }
                    stmts.push(J::O(o));
                }
                hir::StmtKind::Item(_) => {}
                hir::StmtKind::Expr(e) => stmts.push(self.expr(e)),
                hir::StmtKind::Semi(e) => {
                    let inner = self.expr(e);
                    stmts.push(jo! {"k": J::s("semi"), "e": inner});
                }
            }
        }
        let mut o = vec![("k", J::s("block")), ("stmts", J::A(stmts))];
        if let Some(e) = b.expr {
            o.push(("tail", self.expr(e)));
        }
        if !matches!(b.rules, hir::BlockCheckMode::DefaultBlock) {
            o.push(("unsafe", J::B(true)));
        }
        o.push(("sp", self.sp(b.span)));
        J::O(o)
    }

    /// `for pat in iter body` is lowered to
    /// `match IntoIterator::into_iter(iter) { mut iter => loop { match Iterator::next(&mut iter) { None => break, Some(pat) => body } } }`
    fn try_resugar_for(&mut self, e: &hir::Expr<'tcx>) -> Option<Vec<(&'static str, J)>> {
        let hir::ExprKind::Match(scrut, arms, hir::MatchSource::ForLoopDesugar) = e.kind else { return None };
        let mut scrut = scrut;
        while let hir::ExprKind::DropTemps(x) = scrut.kind {
            scrut = x;
        }
        let hir::ExprKind::Call(_, [iter]) = scrut.kind else { return None };
        let [arm] = arms else { return None };
        let hir::ExprKind::Loop(lb, _, _, _) = arm.body.kind else { return None };
        let inner = match (lb.stmts, lb.expr) {
            ([s], None) => match s.kind {
                hir::StmtKind::Expr(x) | hir::StmtKind::Semi(x) => x,
                _ => return None,
            },
            ([], Some(x)) => x,
            _ => return None,
        };
        let mut inner = inner;
        while let hir::ExprKind::DropTemps(x) = inner.kind {
            inner = x;
        }
        let hir::ExprKind::Match(_, [_none, some], _) = inner.kind else { return None };
        let pat: &hir::Pat<'tcx> = match &some.pat.kind {
            hir::PatKind::TupleStruct(_, [pat], _) => pat,
            hir::PatKind::Struct(_, [f], _) => f.pat,
            _ => return None,
        };
        let iter_ty = self.tr.expr_ty_adjusted(iter);
        Some(vec![
            ("k", J::s("for")),
            ("pat", self.pat(pat)),
            ("iter", self.expr(iter)),
            ("iter_ty", J::S(ty_str(iter_ty))),
            ("body", self.expr(some.body)),
        ])
    }

    /// `e?` is lowered to `match Try::branch(e) { Continue(v) => v, Break(r) => return FromResidual::from_residual(r) }`
    fn try_resugar_try(&mut self, e: &hir::Expr<'tcx>) -> Option<Vec<(&'static str, J)>> {
        let hir::ExprKind::Match(scrut, _, hir::MatchSource::TryDesugar(_)) = e.kind else { return None };
        let mut scrut = scrut;
        while let hir::ExprKind::DropTemps(x) = scrut.kind {
            scrut = x;
        }
        let hir::ExprKind::Call(_, [inner]) = scrut.kind else { return None };
        Some(vec![("k", J::s("try")), ("e", self.expr(inner))])
    }

    /// `e.await` is lowered to `match IntoFuture::into_future(e) { mut __awaitee => loop { .. } }`
    fn try_resugar_await(&mut self, e: &hir::Expr<'tcx>) -> Option<Vec<(&'static str, J)>> {
        let hir::ExprKind::Match(scrut, _, hir::MatchSource::AwaitDesugar) = e.kind else { return None };
        let mut scrut = scrut;
        while let hir::ExprKind::DropTemps(x) = scrut.kind {
            scrut = x;
        }
        let hir::ExprKind::Call(_, [inner]) = scrut.kind else { return None };
        Some(vec![("k", J::s("await")), ("e", self.expr(inner))])
    }

    pub fn expr(&mut self, e: &hir::Expr<'tcx>) -> J {
        let tcx = self.tcx;
        let o: Vec<(&'static str, J)> = match &e.kind {
            hir::ExprKind::DropTemps(inner) => return self.expr(inner),
            hir::ExprKind::Use(inner, _) => return self.expr(inner),
            hir::ExprKind::ConstBlock(cb) => {
                let body = tcx.hir_body(cb.body);
                vec![("k", J::s("constblock")), ("body", self.expr(body.value))]
            }
            hir::ExprKind::Array(es) => {
                vec![("k", J::s("array")), ("es", J::A(es.iter().map(|x| self.expr(x)).collect()))]
            }
            hir::ExprKind::Call(f, args) => {
                let mut o = vec![("k", J::s("call"))];
                if let hir::ExprKind::Path(q) = &f.kind {
                    o.push(("callee", self.qpath(q, f.hir_id)));
                } else {
                    o.push(("f", self.expr(f)));
                }
                o.push(("args", J::A(args.iter().map(|x| self.expr(x)).collect())));
                o
            }
            hir::ExprKind::MethodCall(seg, recv, args, _) => {
                let mut o = vec![("k", J::s("mcall")), ("name", J::S(seg.ident.to_string()))];
                if let Some(did) = self.tr.type_dependent_def_id(e.hir_id) {
                    let mut c = vec![
                        ("r", J::s("def")),
                        ("dk", J::s("AssocFn")),
                        ("path", J::S(def_path(tcx, did))),
                        ("key", J::S(def_key(tcx, did))),
                    ];
                    let args = self.tr.node_args(e.hir_id);
                    self.push_callee_details(&mut c, did, args);
                    o.push(("callee", J::O(c)));
                }
                o.push(("recv", self.expr(recv)));
                o.push(("args", J::A(args.iter().map(|x| self.expr(x)).collect())));
                o
            }
            hir::ExprKind::Tup(es) => {
                vec![("k", J::s("tuple")), ("es", J::A(es.iter().map(|x| self.expr(x)).collect()))]
            }
            hir::ExprKind::Binary(op, l, r) => {
                let mut o = vec![
                    ("k", J::s("bin")),
                    ("op", J::s(op.node.as_str())),
                    ("l", self.expr(l)),
                    ("r", self.expr(r)),
                ];
                if let Some(did) = self.tr.type_dependent_def_id(e.hir_id) {
                    o.push(("overloaded", J::S(def_path(tcx, did))));
                }
                o
            }
            hir::ExprKind::Unary(op, x) => {
                let opn = match op {
                    hir::UnOp::Deref => "deref",
                    hir::UnOp::Not => "!",
                    hir::UnOp::Neg => "neg",
                };
                let mut o = vec![("k", J::s("un")), ("op", J::s(opn)), ("e", self.expr(x))];
                if let Some(did) = self.tr.type_dependent_def_id(e.hir_id) {
                    o.push(("overloaded", J::S(def_path(tcx, did))));
                }
                o
            }
            hir::ExprKind::Lit(l) => vec![("k", J::s("lit")), ("lit", self.lit(l, false))],
            hir::ExprKind::Cast(x, _) => vec![("k", J::s("cast")), ("e", self.expr(x))],
            hir::ExprKind::Type(x, _) => return self.expr(x),
            hir::ExprKind::Let(l) => {
                vec![("k", J::s("letexpr")), ("pat", self.pat(l.pat)), ("init", self.expr(l.init))]
            }
            hir::ExprKind::If(c, t, el) => {
                let mut o = vec![("k", J::s("if")), ("cond", self.expr(c)), ("then", self.expr(t))];
                if let Some(x) = el {
                    o.push(("else", self.expr(x)));
                }
                o
            }
            hir::ExprKind::Loop(b, label, src, _) => {
                let mut o = vec![("k", J::s("loop")), ("src", J::S(format!("{:?}", src))), ("body", self.block(b))];
                if let Some(l) = label {
                    o.push(("label", J::S(l.ident.to_string())));
                }
                o
            }
            hir::ExprKind::Match(scrut, arms, src) => {
                if let Some(o) = self.try_resugar_for(e) {
                    o
                } else if let Some(o) = self.try_resugar_try(e) {
                    o
                } else if let Some(o) = self.try_resugar_await(e) {
                    o
                } else {
                    let mut av = Vec::new();
                    for a in *arms {
                        let mut ao = vec![("pat", self.pat(a.pat))];
                        if let Some(g) = a.guard {
                            ao.push(("guard", self.expr(g)));
                        }
                        ao.push(("body", self.expr(a.body)));
                        ao.push(("sp", self.sp(a.span)));
                        av.push(J::O(ao));
                    }
                    vec![
                        ("k", J::s("match")),
                        ("src", J::S(format!("{:?}", src))),
                        ("scrut", self.expr(scrut)),
                        ("arms", J::A(av)),
                    ]
                }
            }
            hir::ExprKind::Closure(c) => {
                let body = tcx.hir_body(c.body);
                let params: Vec<J> = body.params.iter().map(|p| self.pat(p.pat)).collect();
                vec![
                    ("k", J::s("closure")),
                    ("key", J::S(def_key(tcx, c.def_id.to_def_id()))),
                    ("kind", J::S(format!("{:?}", c.kind))),
                    ("move", J::B(matches!(c.capture_clause, hir::CaptureBy::Value { .. }))),
                    ("params", J::A(params)),
                    ("body", self.expr(body.value)),
                ]
            }
            hir::ExprKind::Block(b, label) => {
                let mut o = match self.block(b) {
                    J::O(o) => o,
                    _ => unreachable!(),
                };
                // remove the block's own sp; finish() adds the expression's
                o.retain(|(k, _)| *k != "sp");
                if let Some(l) = label {
                    o.push(("label", J::S(l.ident.to_string())));
                }
                o
            }
            hir::ExprKind::Assign(l, r, _) => vec![("k", J::s("assign")), ("l", self.expr(l)), ("r", self.expr(r))],
            hir::ExprKind::AssignOp(op, l, r) => {
                let mut o = vec![
                    ("k", J::s("assignop")),
                    ("op", J::s(op.node.as_str())),
                    ("l", self.expr(l)),
                    ("r", self.expr(r)),
                ];
                if let Some(did) = self.tr.type_dependent_def_id(e.hir_id) {
                    o.push(("overloaded", J::S(def_path(tcx, did))));
                }
                o
            }
            hir::ExprKind::Field(x, ident) => {
                let mut o = vec![("k", J::s("field")), ("name", J::S(ident.to_string()))];
                let bt = self.tr.expr_ty_adjusted(x);
                if let Some((adt, _)) = self.adt_of_ty(bt) {
                    o.push(("adt", J::S(adt)));
                }
                o.push(("e", self.expr(x)));
                o
            }
            hir::ExprKind::Index(x, i, _) => {
                let mut o = vec![("k", J::s("index")), ("e", self.expr(x)), ("i", self.expr(i))];
                if let Some(did) = self.tr.type_dependent_def_id(e.hir_id) {
                    o.push(("overloaded", J::S(def_path(tcx, did))));
                }
                o
            }
            hir::ExprKind::Path(q) => vec![("k", J::s("path")), ("res", self.qpath(q, e.hir_id))],
            hir::ExprKind::AddrOf(_, m, x) => vec![("k", J::s("ref")), ("mut", J::B(m.is_mut())), ("e", self.expr(x))],
            hir::ExprKind::Break(dest, x) => {
                let mut o = vec![("k", J::s("break"))];
                if let Some(l) = dest.label {
                    o.push(("label", J::S(l.ident.to_string())));
                }
                if let Some(x) = x {
                    o.push(("e", self.expr(x)));
                }
                o
            }
            hir::ExprKind::Continue(dest) => {
                let mut o = vec![("k", J::s("continue"))];
                if let Some(l) = dest.label {
                    o.push(("label", J::S(l.ident.to_string())));
                }
                o
            }
            hir::ExprKind::Ret(x) => {
                let mut o = vec![("k", J::s("ret"))];
                if let Some(x) = x {
                    o.push(("e", self.expr(x)));
                }
                o
            }
            hir::ExprKind::Become(x) => vec![("k", J::s("become")), ("e", self.expr(x))],
            hir::ExprKind::InlineAsm(_) => vec![("k", J::s("asm"))],
            hir::ExprKind::OffsetOf(..) => vec![("k", J::s("offsetof"))],
            hir::ExprKind::Struct(q, fields, tail) => {
                let res = self.tr.qpath_res(q, e.hir_id);
                let mut o = vec![("k", J::s("struct"))];
                let t = self.tr.expr_ty(e);
                if let Some((adt, def)) = self.adt_of_ty(t) {
                    o.push(("adt", J::S(adt)));
                    let vname = match res {
                        Res::Def(DefKind::Variant, vdid) => Some(tcx.item_name(vdid).to_string()),
                        _ if def.is_enum() => None,
                        _ => None,
                    };
                    if let Some(v) = vname {
                        o.push(("variant", J::S(v)));
                    }
                }
                let fs: Vec<J> = fields
                    .iter()
                    .map(|f| {
                        jo! {"name": J::S(f.ident.to_string()), "shorthand": J::B(f.is_shorthand), "e": self.expr(f.expr)}
                    })
                    .collect();
                o.push(("fields", J::A(fs)));
                match tail {
                    hir::StructTailExpr::Base(b) => o.push(("base", self.expr(b))),
                    hir::StructTailExpr::DefaultFields(_) => o.push(("base", J::s("default_fields"))),
                    _ => {}
                }
                o
            }
            hir::ExprKind::Repeat(x, _) => vec![("k", J::s("repeat")), ("e", self.expr(x))],
            hir::ExprKind::Yield(x, _) => vec![("k", J::s("yield")), ("e", self.expr(x))],
            hir::ExprKind::UnsafeBinderCast(_, x, _) => vec![("k", J::s("unsafebinder")), ("e", self.expr(x))],
            hir::ExprKind::Err(_) => vec![("k", J::s("err"))],
        };
        self.finish(o, e)
    }
}

pub fn const_value_json(tcx: TyCtxt<'_>, did: DefId) -> J {
    // generic consts cannot be evaluated polymorphically
    if tcx.generics_of(did).requires_monomorphization(tcx) {
        return J::Null;
    }
    let ty = tcx.type_of(did).instantiate_identity().skip_norm_wip();
    match tcx.const_eval_poly(did) {
        Ok(v) => {
            if let Some(s) = v.try_to_scalar_int() {
                let size = s.size();
                let signed = ty.is_signed();
                if ty.is_bool() {
                    return J::B(s.to_uint(size) != 0);
                }
                if ty.is_char() {
                    return J::S(char::from_u32(s.to_uint(size) as u32).map(|c| c.to_string()).unwrap_or_default());
                }
                if signed {
                    return J::I(s.to_int(size));
                }
                return J::I(s.to_uint(size) as i128);
            }
            // &str, &[u8] and transparent wrappers around them (e.g. &JavaStr)
            let is_slice_like = match ty.kind() {
                ty::Ref(_, inner, _) => match inner.kind() {
                    ty::Str | ty::Slice(_) => true,
                    ty::Adt(def, _) => def.repr().transparent() || def.is_struct(),
                    _ => false,
                },
                _ => false,
            };
            if is_slice_like {
                if let rustc_middle::mir::ConstValue::Slice { .. } | rustc_middle::mir::ConstValue::Indirect { .. } = v {
                    if let Some(bytes) = v.try_get_slice_bytes_for_diagnostics(tcx) {
                        return match std::str::from_utf8(bytes) {
                            Ok(s) => J::S(s.to_string()),
                            Err(_) => J::A(bytes.iter().map(|b| J::I(*b as i128)).collect()),
                        };
                    }
                }
            }
            // small plain-data aggregates (e.g. java_string::JavaCodePoint): raw little-endian bytes
            if let rustc_middle::mir::ConstValue::Indirect { alloc_id, offset } = v {
                if let ty::Adt(..) = ty.kind() {
                    let env = ty::TypingEnv::fully_monomorphized();
                    if let Ok(layout) = tcx.layout_of(env.as_query_input(ty)) {
                        let size = layout.size;
                        if size.bytes() <= 16 && size.bytes() > 0 {
                            if let rustc_middle::mir::interpret::GlobalAlloc::Memory(mem) = tcx.global_alloc(alloc_id) {
                                let a = mem.inner();
                                let start = offset.bytes() as usize;
                                let end = start + size.bytes() as usize;
                                if a.provenance().ptrs().is_empty() && end <= a.len() {
                                    let bytes = a.inspect_with_uninit_and_ptr_outside_interpreter(start..end);
                                    let mut val: i128 = 0;
                                    for (i, b) in bytes.iter().enumerate() {
                                        val |= (*b as i128) << (8 * i);
                                    }
                                    return jo! {"raw_le": J::I(val), "size": J::I(size.bytes() as i128)};
                                }
                            }
                        }
                    }
                }
            }
            J::Null
        }
        Err(_) => J::Null,
    }
}

/// Dump one body owner (fn, method, const, static); closures are nested in their parent.
pub fn dump_body<'tcx>(tcx: TyCtxt<'tcx>, def: LocalDefId) -> Option<J> {
    let did = def.to_def_id();
    if tcx.is_typeck_child(did) {
        return None;
    }
    let kind = tcx.def_kind(did);
    let body = tcx.hir_body_owned_by(def);
    let tr = tcx.typeck(def);
    if tr.tainted_by_errors.is_some() {
        return None;
    }
    let mut d = Dumper { tcx, tr, owner: def, n_nodes: 0 };
    let params: Vec<J> = body.params.iter().map(|p| d.pat(p.pat)).collect();
    let value = d.expr(body.value);
    let mut o = vec![
        ("key", J::S(def_key(tcx, did))),
        ("path", J::S(def_path(tcx, did))),
        ("dk", J::S(format!("{:?}", kind))),
        ("sp", J::S(span_str(tcx, tcx.def_span(did)))),
        ("params", J::A(params)),
    ];
    if matches!(kind, DefKind::Fn | DefKind::AssocFn) {
        let sig = tcx.fn_sig(did).instantiate_identity().skip_norm_wip().skip_binder();
        o.push(("inputs", J::A(sig.inputs().iter().map(|t| J::S(ty_str(*t))).collect())));
        o.push(("output", J::S(ty_str(sig.output()))));
        o.push(("vis", J::S(format!("{:?}", tcx.visibility(did)))));
        if let Some(imp) = tcx.impl_of_assoc(did) {
            let t = tcx.type_of(imp).instantiate_identity().skip_norm_wip();
            o.push(("impl_ty", J::S(ty_str(t))));
            o.push(("impl_key", J::S(def_key(tcx, imp))));
            if let Some(trr) = tcx.impl_opt_trait_ref(imp) {
                o.push(("impl_trait", J::S(any_str(trr.skip_binder()))));
                o.push(("impl_trait_path", J::S(def_path(tcx, trr.skip_binder().def_id))));
            }
        } else if let Some(trd) = tcx.trait_of_assoc(did) {
            o.push(("trait_default_of", J::S(def_path(tcx, trd))));
        }
        o.push(("name", J::S(tcx.item_name(did).to_string())));
        // trait bounds on the function's own type parameters (`R: ClassRead`), so that `fn f<R: ClassRead>(r: &mut R)` and
        // `fn f(r: &mut impl ClassRead)` can be read alike
        let mut bounds: Vec<J> = Vec::new();
        for (clause, _) in tcx.predicates_of(did).predicates.iter() {
            if let Some(tp) = clause.as_trait_clause() {
                let tp = tp.skip_binder();
                if let ty::Param(p) = tp.self_ty().kind() {
                    bounds.push(jo! {"param": J::S(p.name.to_string()), "trait": J::S(def_path(tcx, tp.def_id()))});
                }
            }
        }
        o.push(("bounds", J::A(bounds)));
    }
    // is this body inside a #[cfg(test)] module / a #[test] fn?  (reported for information)
    o.push(("n_nodes", J::I(d.n_nodes as i128)));
    o.push(("body", value));
    Some(J::O(o))
}
