//! Minimal JSON value + serializer (no external crates available for the driver).

pub enum J {
    Null,
    B(bool),
    I(i128),
    S(String),
    A(Vec<J>),
    O(Vec<(&'static str, J)>),
}

impl J {
    pub fn s(x: impl Into<String>) -> J {
        J::S(x.into())
    }
    pub fn obj() -> Vec<(&'static str, J)> {
        Vec::new()
    }
    pub fn write(&self, out: &mut String) {
        match self {
            J::Null => out.push_str("null"),
            J::B(b) => out.push_str(if *b { "true" } else { "false" }),
            J::I(i) => out.push_str(&i.to_string()),
            J::S(s) => write_str(s, out),
            J::A(v) => {
                out.push('[');
                for (i, x) in v.iter().enumerate() {
                    if i > 0 {
                        out.push(',');
                    }
                    x.write(out);
                }
                out.push(']');
            }
            J::O(v) => {
                out.push('{');
                for (i, (k, x)) in v.iter().enumerate() {
                    if i > 0 {
                        out.push(',');
                    }
                    write_str(k, out);
                    out.push(':');
                    x.write(out);
                }
                out.push('}');
            }
        }
    }
}

fn write_str(s: &str, out: &mut String) {
    out.push('"');
    for c in s.chars() {
        match c {
            '"' => out.push_str("\\\""),
            '\\' => out.push_str("\\\\"),
            '\n' => out.push_str("\\n"),
            '\r' => out.push_str("\\r"),
            '\t' => out.push_str("\\t"),
            c if (c as u32) < 0x20 => out.push_str(&format!("\\u{:04x}", c as u32)),
            c => out.push(c),
        }
    }
    out.push('"');
}

#[macro_export]
macro_rules! jo {
    ($($k:literal : $v:expr),* $(,)?) => {
        $crate::json::J::O(vec![$(($k, $v)),*])
    };
}
