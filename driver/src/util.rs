use rustc_hir::def_id::DefId;
use rustc_middle::ty::print::{with_no_trimmed_paths, with_no_visible_paths, with_resolve_crate_name};
use rustc_middle::ty::{Ty, TyCtxt};
use rustc_span::Span;

use crate::json::J;

/// Stable key of a definition: `<crate>::<def path>` (impls appear as `{impl#n}`).
pub fn def_key(tcx: TyCtxt<'_>, did: DefId) -> String {
    let krate = tcx.crate_name(did.krate);
    format!("{}{}", krate, tcx.def_path(did).to_string_no_crate_verbose())
}

/// Human readable, crate-qualified path (`duke::tree::class::ClassName`,
/// `<duke::X as duke::T>::m`).
pub fn def_path(tcx: TyCtxt<'_>, did: DefId) -> String {
    with_no_visible_paths!(with_resolve_crate_name!(with_no_trimmed_paths!(tcx.def_path_str(did))))
}

pub fn def_path_args<'tcx>(
    tcx: TyCtxt<'tcx>,
    did: DefId,
    args: &'tcx [rustc_middle::ty::GenericArg<'tcx>],
) -> String {
    with_no_visible_paths!(with_resolve_crate_name!(with_no_trimmed_paths!(
        tcx.def_path_str_with_args(did, args)
    )))
}

pub fn ty_str<'tcx>(ty: Ty<'tcx>) -> String {
    with_no_visible_paths!(with_resolve_crate_name!(with_no_trimmed_paths!(ty.to_string())))
}

pub fn any_str<T: std::fmt::Display>(x: T) -> String {
    with_no_visible_paths!(with_resolve_crate_name!(with_no_trimmed_paths!(x.to_string())))
}

/// `file:line:col-line:col` of the span as written in user code (call site of
/// the outermost macro when the span comes from an expansion).
pub fn span_str(tcx: TyCtxt<'_>, span: Span) -> String {
    let span = span.source_callsite();
    raw_span_str(tcx, span)
}

pub fn raw_span_str(tcx: TyCtxt<'_>, span: Span) -> String {
    let sm = tcx.sess.source_map();
    if span.is_dummy() {
        return "?".into();
    }
    let lo = sm.lookup_char_pos(span.lo());
    let hi = sm.lookup_char_pos(span.hi());
    let name = match &lo.file.name {
        rustc_span::FileName::Real(r) => match r.local_path() {
            Some(p) => p.display().to_string(),
            None => format!("{:?}", lo.file.name),
        },
        other => format!("{:?}", other),
    };
    format!("{}:{}:{}-{}:{}", name, lo.line, lo.col.0 + 1, hi.line, hi.col.0 + 1)
}

/// Macro names the span was expanded from, innermost first.
pub fn macro_chain(span: Span) -> Vec<String> {
    let mut out: Vec<String> = Vec::new();
    let mut sp = span;
    let mut guard = 0;
    while sp.from_expansion() && guard < 16 {
        let ed = sp.ctxt().outer_expn_data();
        let name = match ed.kind {
            rustc_span::ExpnKind::Macro(_, sym) => sym.to_string(),
            rustc_span::ExpnKind::Desugaring(d) => format!("desugar:{:?}", d),
            rustc_span::ExpnKind::AstPass(p) => format!("astpass:{:?}", p),
            rustc_span::ExpnKind::Root => "root".to_string(),
        };
        if out.last() != Some(&name) {
            out.push(name);
        }
        sp = ed.call_site;
        guard += 1;
    }
    out
}

pub fn mac_json(span: Span) -> Option<J> {
    if !span.from_expansion() {
        return None;
    }
    let c = macro_chain(span);
    if c.is_empty() {
        return None;
    }
    Some(J::A(c.into_iter().map(J::S).collect()))
}
