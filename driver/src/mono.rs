//! Monomorphic instance walk from the harness entry points (`e_*` functions of the
//! `fbr_entries` crate) and a structured MIR dump of every reachable workspace function.

use std::collections::{BTreeMap, BTreeSet, HashMap, HashSet, VecDeque};

use rustc_middle::mir::{
    self, AggregateKind, BinOp, Body, Const, Operand, Place, ProjectionElem, Rvalue, StatementKind, TerminatorKind,
};
use rustc_middle::ty::{self, Instance, InstanceKind, Ty, TyCtxt, TypingEnv};

use crate::jo;
use crate::json::J;
use crate::util::*;

pub const WORKSPACE: &[&str] = &[
    "duke",
    "quill",
    "dukenest",
    "dukebox",
    "raw_class_file",
    "maven_dependency_resolver",
    "feather_build_rs",
    "fbr_entries",
];

struct Ctx<'tcx> {
    tcx: TyCtxt<'tcx>,
    env: TypingEnv<'tcx>,
    inst: Instance<'tcx>,
}

impl<'tcx> Ctx<'tcx> {
    fn subst<T: ty::TypeFoldable<TyCtxt<'tcx>>>(&self, x: T) -> T {
        self.inst.instantiate_mir_and_normalize_erasing_regions(self.tcx, self.env, ty::EarlyBinder::bind(x))
    }

    fn place(&self, p: &Place<'tcx>) -> J {
        let mut v = vec![J::I(p.local.as_u32() as i128)];
        for e in p.projection.iter() {
            v.push(match e {
                ProjectionElem::Deref => J::s("*"),
                ProjectionElem::Field(f, _) => jo! {"f": J::I(f.as_u32() as i128)},
                ProjectionElem::Index(l) => jo! {"i": J::I(l.as_u32() as i128)},
                ProjectionElem::ConstantIndex { offset, min_length, from_end } => {
                    jo! {"ci": J::I(offset as i128), "min": J::I(min_length as i128), "end": J::B(from_end)}
                }
                ProjectionElem::Subslice { from, to, from_end } => {
                    jo! {"ss": J::I(from as i128), "to": J::I(to as i128), "end": J::B(from_end)}
                }
                ProjectionElem::Downcast(name, idx) => {
                    jo! {"dc": J::I(idx.as_u32() as i128), "name": name.map(|n| J::S(n.to_string())).unwrap_or(J::Null)}
                }
                ProjectionElem::OpaqueCast(_) => J::s("opaque"),
                ProjectionElem::UnwrapUnsafeBinder(_) => J::s("unwrap_binder"),
            });
        }
        J::A(v)
    }

    fn constant(&self, c: &Const<'tcx>) -> J {
        let c = self.subst(*c);
        let ty = c.ty();
        let mut o = vec![("ty", J::S(ty_str(ty)))];
        if let ty::FnDef(did, args) = ty.kind() {
            o.push(("fn", J::S(def_key(self.tcx, *did))));
            o.push(("fn_path", J::S(def_path_args(self.tcx, *did, args))));
            return jo! {"c": J::O(o)};
        }
        if ty.is_integral() || ty.is_bool() || ty.is_char() {
            if let Some(s) = c.try_eval_scalar_int(self.tcx, self.env) {
                let size = s.size();
                let v = if ty.is_signed() { s.to_int(size) } else { s.to_uint(size) as i128 };
                o.push(("v", J::I(v)));
            }
        } else if let ty::Ref(_, inner, _) = ty.kind() {
            if inner.is_str() {
                if let Const::Val(v, _) = c {
                    if let Some(b) = v.try_get_slice_bytes_for_diagnostics(self.tcx) {
                        if let Ok(s) = std::str::from_utf8(b) {
                            let mut s = s.to_string();
                            if s.len() > 200 {
                                s.truncate(200);
                            }
                            o.push(("str", J::S(s)));
                        }
                    }
                }
            }
        }
        jo! {"c": J::O(o)}
    }

    fn operand(&self, op: &Operand<'tcx>) -> J {
        match op {
            Operand::Copy(p) => jo! {"cp": self.place(p)},
            Operand::Move(p) => jo! {"mv": self.place(p)},
            Operand::Constant(c) => self.constant(&c.const_),
            Operand::RuntimeChecks(r) => jo! {"rt": J::S(format!("{:?}", r))},
        }
    }

    fn rvalue(&self, rv: &Rvalue<'tcx>) -> J {
        match rv {
            Rvalue::Use(op, _) => jo! {"k": J::s("use"), "a": self.operand(op)},
            Rvalue::Repeat(op, n) => jo! {"k": J::s("repeat"), "a": self.operand(op), "n": J::S(any_str(self.subst(*n)))},
            Rvalue::Ref(_, bk, p) => jo! {"k": J::s("ref"), "mut": J::B(matches!(bk, mir::BorrowKind::Mut { .. })), "p": self.place(p)},
            Rvalue::ThreadLocalRef(_) => jo! {"k": J::s("tls")},
            Rvalue::RawPtr(_, p) => jo! {"k": J::s("rawptr"), "p": self.place(p)},
            Rvalue::Cast(kind, op, ty) => {
                let k = match kind {
                    mir::CastKind::IntToInt => "int2int".to_string(),
                    mir::CastKind::Transmute => "transmute".to_string(),
                    other => format!("{:?}", other),
                };
                jo! {"k": J::s("cast"), "ck": J::S(k), "a": self.operand(op), "to": J::S(ty_str(self.subst(*ty)))}
            }
            Rvalue::BinaryOp(op, ab) => {
                jo! {"k": J::s("bin"), "op": J::S(format!("{:?}", op)), "a": self.operand(&ab.0), "b": self.operand(&ab.1)}
            }
            Rvalue::UnaryOp(op, a) => jo! {"k": J::s("un"), "op": J::S(format!("{:?}", op)), "a": self.operand(a)},
            Rvalue::Discriminant(p) => jo! {"k": J::s("discr"), "p": self.place(p)},
            Rvalue::Aggregate(kind, ops) => {
                let opsj: Vec<J> = ops.iter().map(|o| self.operand(o)).collect();
                let mut o = vec![("k", J::s("agg"))];
                match &**kind {
                    AggregateKind::Array(_) => o.push(("ak", J::s("array"))),
                    AggregateKind::Tuple => o.push(("ak", J::s("tuple"))),
                    AggregateKind::Adt(did, vidx, _, _, _) => {
                        o.push(("ak", J::s("adt")));
                        o.push(("adt", J::S(def_path(self.tcx, *did))));
                        o.push(("variant", J::I(vidx.as_u32() as i128)));
                        let def = self.tcx.adt_def(*did);
                        o.push(("vname", J::S(def.variant(*vidx).name.to_string())));
                    }
                    AggregateKind::Closure(did, _) => {
                        o.push(("ak", J::s("closure")));
                        o.push(("closure", J::S(def_key(self.tcx, *did))));
                    }
                    AggregateKind::Coroutine(..) | AggregateKind::CoroutineClosure(..) => o.push(("ak", J::s("coroutine"))),
                    AggregateKind::RawPtr(..) => o.push(("ak", J::s("rawptr"))),
                }
                o.push(("ops", J::A(opsj)));
                J::O(o)
            }
            Rvalue::CopyForDeref(p) => jo! {"k": J::s("use"), "a": jo!{"cp": self.place(p)}},
            Rvalue::WrapUnsafeBinder(op, _) => jo! {"k": J::s("use"), "a": self.operand(op)},
        }
    }
}

/// Instances seen so far, numbered in discovery order, plus the instance-level call edges
/// (caller id -> callee id; closures and fn items passed as values count as edges).
#[derive(Default)]
struct Seen<'tcx> {
    ids: HashMap<Instance<'tcx>, usize>,
    list: Vec<Instance<'tcx>>,
    edges: BTreeSet<(usize, usize)>,
    cur: Option<usize>,
}

impl<'tcx> Seen<'tcx> {
    /// true if the instance is new; always records the edge from the instance being walked
    fn insert(&mut self, i: Instance<'tcx>) -> bool {
        let (id, new) = match self.ids.get(&i) {
            Some(id) => (*id, false),
            None => {
                let id = self.list.len();
                self.ids.insert(i, id);
                self.list.push(i);
                (id, true)
            }
        };
        if let Some(c) = self.cur {
            self.edges.insert((c, id));
        }
        new
    }
}

#[derive(Default)]
struct FnFacts {
    path: String,
    krate: String,
    n_instances: usize,
    mir: Option<J>,
    /// bb index -> set of (callee key or leaf description)
    calls: BTreeMap<usize, BTreeSet<String>>,
    /// closures and fn items referenced as values (pseudo call edges)
    refs: BTreeSet<String>,
    first_instance: String,
}

pub struct CalleeInfo {
    pub key: String,
    pub path: String,
    pub krate: String,
    pub kind: &'static str,
}

pub fn walk<'tcx>(tcx: TyCtxt<'tcx>) -> J {
    let ws: HashSet<&str> = WORKSPACE.iter().copied().collect();
    let env = TypingEnv::fully_monomorphized();
    let mut queue: VecDeque<(Instance<'tcx>, String)> = VecDeque::new();
    let mut seen: Seen<'tcx> = Seen::default();
    let mut entries: Vec<J> = Vec::new();
    for def in tcx.hir_body_owners() {
        let did = def.to_def_id();
        if !matches!(tcx.def_kind(did), rustc_hir::def::DefKind::Fn) {
            continue;
        }
        let name = tcx.item_name(did).to_string();
        if name.starts_with("e_") {
            let inst = Instance::mono(tcx, did);
            if seen.insert(inst) {
                queue.push_back((inst, name.clone()));
            }
            seen.cur = None;
            entries.push(jo! {"name": J::S(name), "key": J::S(def_key(tcx, did))});
        }
    }

    let mut fns: BTreeMap<String, FnFacts> = BTreeMap::new();
    let mut callees: BTreeMap<String, CalleeInfo> = BTreeMap::new();
    // which entries reach which function
    let mut reach: HashMap<String, BTreeSet<String>> = HashMap::new();
    let mut leaves: BTreeMap<String, usize> = BTreeMap::new();
    let mut unresolved: Vec<J> = Vec::new();
    let mut n_instances = 0usize;
    let mut transit_cache: HashMap<Instance<'tcx>, Vec<Instance<'tcx>>> = HashMap::new();
    let mut transit_stats: (usize, usize) = (0, 0);
    let mut via_external: BTreeSet<String> = BTreeSet::new();

    while let Some((inst, entry)) = queue.pop_front() {
        seen.cur = seen.ids.get(&inst).copied();
        let did = inst.def_id();
        let krate = tcx.crate_name(did.krate).to_string();
        let key = def_key(tcx, did);
        if !ws.contains(krate.as_str()) {
            *leaves.entry(key).or_default() += 1;
            continue;
        }
        match inst.def {
            InstanceKind::Item(_) | InstanceKind::ClosureOnceShim { .. } | InstanceKind::FnPtrShim(..) | InstanceKind::ReifyShim(..) => {}
            InstanceKind::Virtual(..) | InstanceKind::Intrinsic(..) => continue,
            _ => {}
        }
        if let InstanceKind::Item(d) = inst.def {
            if !tcx.is_mir_available(d) {
                unresolved.push(jo! {"why": J::s("no-mir"), "callee": J::S(def_path(tcx, d))});
                continue;
            }
        }
        n_instances += 1;
        reach.entry(key.clone()).or_default().insert(entry.clone());
        let body: &Body<'tcx> = tcx.instance_mir(inst.def);
        let cx = Ctx { tcx, env, inst };
        let is_item = matches!(inst.def, InstanceKind::Item(_));
        let ff = fns.entry(key.clone()).or_default();
        ff.n_instances += 1;
        if ff.path.is_empty() {
            ff.path = def_path(tcx, did);
            ff.krate = krate.clone();
            ff.first_instance = any_str(inst);
        }
        let dump = ff.mir.is_none() && is_item;
        let mut blocks_json: Vec<J> = Vec::new();
        let mut new_refs: Vec<String> = Vec::new();

        for (bbi, bb) in body.basic_blocks.iter_enumerated() {
            let mut stmts: Vec<J> = Vec::new();
            for st in &bb.statements {
                if let StatementKind::Assign(b) = &st.kind {
                    let (place, rv) = &**b;
                    // enqueue closures and fn items mentioned as values
                    if let Rvalue::Aggregate(k, _) = rv {
                        if let AggregateKind::Closure(cdid, cargs) = **k {
                            let cargs = cx.subst(cargs);
                            // resolve with the closure's own kind: asking for FnOnce on an Fn/FnMut closure yields the
                            // `FnOnce::call_once` shim (an instance of a core item), and the closure body would never be walked
                            let ci = Instance::resolve_closure(tcx, cdid, cargs, cargs.as_closure().kind());
                            new_refs.push(def_key(tcx, ci.def_id()));
                            if seen.insert(ci) {
                                queue.push_back((ci, entry.clone()));
                            }
                        }
                    }
                    visit_rvalue_operands(rv, &mut |op| {
                        if let Some(k) = enqueue_fn_const(&cx, op, &mut seen, &mut queue, &entry) {
                            new_refs.push(k);
                        }
                    });
                    if dump {
                        stmts.push(jo! {
                            "k": J::s("assign"),
                            "p": cx.place(place),
                            "rv": cx.rvalue(rv),
                            "sp": J::S(span_str(tcx, st.source_info.span)),
                            "mac": mac_json(st.source_info.span).unwrap_or(J::Null),
                        });
                    }
                } else if dump {
                    match &st.kind {
                        StatementKind::SetDiscriminant { place, variant_index } => stmts.push(jo! {
                            "k": J::s("setdiscr"), "p": cx.place(place), "v": J::I(variant_index.as_u32() as i128)
                        }),
                        StatementKind::StorageLive(_)
                        | StatementKind::StorageDead(_)
                        | StatementKind::FakeRead(_)
                        | StatementKind::PlaceMention(_)
                        | StatementKind::AscribeUserType(..)
                        | StatementKind::Coverage(_)
                        | StatementKind::ConstEvalCounter
                        | StatementKind::BackwardIncompatibleDropHint { .. }
                        | StatementKind::Nop => {}
                        StatementKind::Intrinsic(_) => stmts.push(jo! {"k": J::s("intrinsic")}),
                        StatementKind::Assign(_) => {}
                    }
                }
            }
            let term = bb.terminator();
            let tsp = term.source_info.span;
            let mut t: Vec<(&'static str, J)> = Vec::new();
            match &term.kind {
                TerminatorKind::Goto { target } => {
                    t.push(("k", J::s("goto")));
                    t.push(("t", J::I(target.as_u32() as i128)));
                }
                TerminatorKind::SwitchInt { discr, targets } => {
                    t.push(("k", J::s("switch")));
                    if dump {
                        t.push(("d", cx.operand(discr)));
                        let dty = cx.subst(discr.ty(&body.local_decls, tcx));
                        t.push(("dty", J::S(ty_str(dty))));
                        let signed = dty.is_signed();
                        let bits = int_bits(tcx, dty);
                        let mut tv = Vec::new();
                        for (v, bb) in targets.iter() {
                            let vv = if signed { sign_extend(v, bits) } else { v as i128 };
                            tv.push(J::A(vec![J::I(vv), J::I(bb.as_u32() as i128)]));
                        }
                        t.push(("ts", J::A(tv)));
                        t.push(("o", J::I(targets.otherwise().as_u32() as i128)));
                    }
                }
                TerminatorKind::UnwindResume => t.push(("k", J::s("resume"))),
                TerminatorKind::UnwindTerminate(_) => t.push(("k", J::s("abort"))),
                TerminatorKind::Return => t.push(("k", J::s("return"))),
                TerminatorKind::Unreachable => t.push(("k", J::s("unreachable"))),
                TerminatorKind::Drop { place, target, .. } => {
                    t.push(("k", J::s("drop")));
                    if dump {
                        t.push(("p", cx.place(place)));
                    }
                    t.push(("t", J::I(target.as_u32() as i128)));
                }
                TerminatorKind::Call { func, args, destination, target, .. } => {
                    t.push(("k", J::s("call")));
                    for a in args.iter() {
                        if let Some(k) = enqueue_fn_const(&cx, &a.node, &mut seen, &mut queue, &entry) {
                            new_refs.push(k);
                        }
                    }
                    let fty = cx.subst(func.ty(&body.local_decls, tcx));
                    let mut callee_desc: Option<String> = None;
                    if let ty::FnDef(cdid, cargs) = fty.kind() {
                        match Instance::try_resolve(tcx, env, *cdid, cargs) {
                            Ok(Some(ci)) => {
                                let ckey = def_key(tcx, ci.def_id());
                                let ckrate = tcx.crate_name(ci.def_id().krate).to_string();
                                let kind = match ci.def {
                                    InstanceKind::Item(_) => "item",
                                    InstanceKind::Virtual(..) => "virtual",
                                    InstanceKind::Intrinsic(_) => "intrinsic",
                                    InstanceKind::ClosureOnceShim { .. } => "closure_once_shim",
                                    InstanceKind::DropGlue(..) => "drop_glue",
                                    InstanceKind::CloneShim(..) => "clone_shim",
                                    InstanceKind::FnPtrShim(..) => "fnptr_shim",
                                    InstanceKind::ReifyShim(..) => "reify_shim",
                                    _ => "shim",
                                };
                                callees.entry(ckey.clone()).or_insert_with(|| CalleeInfo {
                                    key: ckey.clone(),
                                    path: def_path(tcx, ci.def_id()),
                                    krate: ckrate,
                                    kind,
                                });
                                // full instantiated path for leaves (e.g. Vec<u8>::with_capacity)
                                let full = any_str(ci);
                                callee_desc = Some(format!("{}\u{1f}{}\u{1f}{}", ckey, kind, full));
                                if seen.insert(ci) {
                                    queue.push_back((ci, entry.clone()));
                                }
                                // an external generic function instantiated with workspace items may call back into the workspace
                                if !ws.contains(tcx.crate_name(ci.def_id().krate).as_str()) && mentions_ws(tcx, &ws, ci.args) {
                                    for wi in transit(tcx, env, &ws, ci, &mut transit_cache, &mut transit_stats) {
                                        // closures are reached from where they are created; only items are new information
                                        if tcx.is_closure_like(wi.def_id()) {
                                            continue;
                                        }
                                        let wk = def_key(tcx, wi.def_id());
                                        via_external.insert(wk.clone());
                                        new_refs.push(wk);
                                        if seen.insert(wi) {
                                            queue.push_back((wi, entry.clone()));
                                        }
                                    }
                                }
                            }
                            _ => {
                                unresolved.push(jo! {
                                    "why": J::s("unresolved"), "in": J::S(key.clone()),
                                    "callee": J::S(def_path_args(tcx, *cdid, cargs)),
                                    "sp": J::S(span_str(tcx, tsp)),
                                });
                                callee_desc = Some(format!("?{}\u{1f}unresolved\u{1f}", def_key(tcx, *cdid)));
                            }
                        }
                    } else {
                        // call through fn pointer / closure object value
                        callee_desc = Some(format!("?indirect\u{1f}indirect\u{1f}{}", ty_str(fty)));
                    }
                    if let Some(cd) = callee_desc {
                        fns.get_mut(&key).unwrap().calls.entry(bbi.as_usize()).or_default().insert(cd);
                    }
                    if dump {
                        t.push(("args", J::A(args.iter().map(|a| cx.operand(&a.node)).collect())));
                        t.push(("dest", cx.place(destination)));
                        t.push(("t", target.map(|b| J::I(b.as_u32() as i128)).unwrap_or(J::Null)));
                        t.push(("fty", J::S(ty_str(fty))));
                    }
                }
                TerminatorKind::TailCall { .. } => t.push(("k", J::s("tailcall"))),
                TerminatorKind::Assert { cond, expected, msg, target, .. } => {
                    t.push(("k", J::s("assert")));
                    if dump {
                        t.push(("cond", cx.operand(cond)));
                        t.push(("expected", J::B(*expected)));
                        let (kind, ops): (String, Vec<J>) = match &**msg {
                            mir::AssertKind::BoundsCheck { len, index } => {
                                ("bounds".into(), vec![cx.operand(len), cx.operand(index)])
                            }
                            mir::AssertKind::Overflow(op, a, b) => {
                                (format!("overflow:{:?}", op), vec![cx.operand(a), cx.operand(b)])
                            }
                            mir::AssertKind::OverflowNeg(a) => ("overflow:Neg".into(), vec![cx.operand(a)]),
                            mir::AssertKind::DivisionByZero(a) => ("divzero".into(), vec![cx.operand(a)]),
                            mir::AssertKind::RemainderByZero(a) => ("remzero".into(), vec![cx.operand(a)]),
                            mir::AssertKind::MisalignedPointerDereference { .. } => ("ptr:misaligned".into(), vec![]),
                            mir::AssertKind::NullPointerDereference => ("ptr:null".into(), vec![]),
                            mir::AssertKind::InvalidEnumConstruction(_) => ("ptr:enum".into(), vec![]),
                            other => (format!("other:{:?}", other), vec![]),
                        };
                        t.push(("ak", J::S(kind)));
                        t.push(("ops", J::A(ops)));
                    }
                    t.push(("t", J::I(target.as_u32() as i128)));
                }
                TerminatorKind::Yield { .. } => t.push(("k", J::s("yield"))),
                TerminatorKind::CoroutineDrop => t.push(("k", J::s("coroutine_drop"))),
                TerminatorKind::FalseEdge { real_target, .. } => {
                    t.push(("k", J::s("goto")));
                    t.push(("t", J::I(real_target.as_u32() as i128)));
                }
                TerminatorKind::FalseUnwind { real_target, .. } => {
                    t.push(("k", J::s("goto")));
                    t.push(("t", J::I(real_target.as_u32() as i128)));
                }
                TerminatorKind::InlineAsm { .. } => t.push(("k", J::s("asm"))),
            }
            if dump {
                t.push(("sp", J::S(span_str(tcx, tsp))));
                if let Some(m) = mac_json(tsp) {
                    t.push(("mac", m));
                }
                blocks_json.push(jo! {"s": J::A(stmts), "t": J::O(t), "cleanup": J::B(bb.is_cleanup)});
            }
        }
        fns.get_mut(&key).unwrap().refs.extend(new_refs);
        if dump {
            let locals: Vec<J> = body
                .local_decls
                .iter()
                .map(|d| {
                    let t = cx.subst(d.ty);
                    J::S(ty_str(t))
                })
                .collect();
            let mut names: Vec<J> = Vec::new();
            for v in &body.var_debug_info {
                if let mir::VarDebugInfoContents::Place(p) = &v.value {
                    names.push(jo! {"name": J::S(v.name.to_string()), "p": cx.place(p)});
                }
            }
            // field names of ADT-typed locals are looked up by the rules from the ADT table
            let ff = fns.get_mut(&key).unwrap();
            ff.mir = Some(jo! {
                "argc": J::I(body.arg_count as i128),
                "locals": J::A(locals),
                "names": J::A(names),
                "blocks": J::A(blocks_json),
                "sp": J::S(span_str(tcx, body.span)),
            });
        }
    }

    let fns_json: Vec<J> = fns
        .into_iter()
        .map(|(key, f)| {
            let calls: Vec<J> = f
                .calls
                .into_iter()
                .map(|(bb, set)| {
                    let cs: Vec<J> = set
                        .into_iter()
                        .map(|s| {
                            let mut it = s.split('\u{1f}');
                            let k = it.next().unwrap_or("").to_string();
                            let kind = it.next().unwrap_or("").to_string();
                            let full = it.next().unwrap_or("").to_string();
                            jo! {"key": J::S(k), "kind": J::S(kind), "full": J::S(full)}
                        })
                        .collect();
                    jo! {"bb": J::I(bb as i128), "callees": J::A(cs)}
                })
                .collect();
            let r: Vec<J> = reach.get(&key).map(|s| s.iter().map(|x| J::S(x.clone())).collect()).unwrap_or_default();
            jo! {
                "key": J::S(key),
                "path": J::S(f.path),
                "crate": J::S(f.krate),
                "instances": J::I(f.n_instances as i128),
                "first_instance": J::S(f.first_instance),
                "entries": J::A(r),
                "calls": J::A(calls),
                "refs": J::A(f.refs.into_iter().map(J::S).collect()),
                "mir": f.mir.unwrap_or(J::Null),
            }
        })
        .collect();
    let callees_json: Vec<J> = callees
        .into_values()
        .map(|c| jo! {"key": J::S(c.key), "path": J::S(c.path), "crate": J::S(c.krate), "kind": J::s(c.kind)})
        .collect();
    // instance-level graph restricted to workspace instances
    let mut nodes: Vec<J> = Vec::new();
    for (i, inst) in seen.list.iter().enumerate() {
        let did = inst.def_id();
        let krate = tcx.crate_name(did.krate).to_string();
        if ws.contains(krate.as_str()) {
            nodes.push(jo! {"i": J::I(i as i128), "key": J::S(def_key(tcx, did)), "full": J::S(any_str(*inst))});
        }
    }
    let ws_ids: HashSet<usize> = seen
        .list
        .iter()
        .enumerate()
        .filter(|(_, inst)| ws.contains(tcx.crate_name(inst.def_id().krate).as_str()))
        .map(|(i, _)| i)
        .collect();
    let edges: Vec<J> = seen
        .edges
        .iter()
        .filter(|(a, b)| ws_ids.contains(a) && ws_ids.contains(b))
        .map(|(a, b)| J::A(vec![J::I(*a as i128), J::I(*b as i128)]))
        .collect();
    jo! {
        "inst_nodes": J::A(nodes),
        "inst_edges": J::A(edges),
        "entries": J::A(entries),
        "n_instances": J::I(n_instances as i128),
        "via_external": J::A(via_external.iter().map(|k| J::S(k.clone())).collect()),
        "transit_bodies": J::I(transit_stats.0 as i128),
        "transit_truncated": J::I(transit_stats.1 as i128),
        "fns": J::A(fns_json),
        "callees": J::A(callees_json),
        "unresolved": J::A(unresolved),
    }
}

fn int_bits<'tcx>(tcx: TyCtxt<'tcx>, t: Ty<'tcx>) -> u32 {
    match t.kind() {
        ty::Int(i) => i.bit_width().unwrap_or(tcx.data_layout.pointer_size().bits()) as u32,
        ty::Uint(u) => u.bit_width().unwrap_or(tcx.data_layout.pointer_size().bits()) as u32,
        ty::Bool => 8,
        ty::Char => 32,
        _ => 128,
    }
}

fn sign_extend(v: u128, bits: u32) -> i128 {
    if bits >= 128 {
        return v as i128;
    }
    let shift = 128 - bits;
    ((v << shift) as i128) >> shift
}

fn visit_rvalue_operands<'tcx>(rv: &Rvalue<'tcx>, f: &mut impl FnMut(&Operand<'tcx>)) {
    match rv {
        Rvalue::Use(op, _) | Rvalue::Repeat(op, _) | Rvalue::Cast(_, op, _) | Rvalue::UnaryOp(_, op) | Rvalue::WrapUnsafeBinder(op, _) => f(op),
        Rvalue::BinaryOp(_, ab) => {
            f(&ab.0);
            f(&ab.1);
        }
        Rvalue::Aggregate(_, ops) => {
            for o in ops.iter() {
                f(o);
            }
        }
        _ => {}
    }
}

/// Does a list of generic arguments mention an item of the workspace (an ADT, a closure or a fn item defined there)?
fn mentions_ws<'tcx>(tcx: TyCtxt<'tcx>, ws: &HashSet<&str>, args: ty::GenericArgsRef<'tcx>) -> bool {
    for a in args.iter() {
        for t in a.walk() {
            if let Some(ty) = t.as_type() {
                let did = match ty.kind() {
                    ty::Adt(def, _) => Some(def.did()),
                    ty::Closure(did, _) | ty::FnDef(did, _) => Some(*did),
                    _ => None,
                };
                if let Some(did) = did {
                    if ws.contains(tcx.crate_name(did.krate).as_str()) {
                        return true;
                    }
                }
            }
        }
    }
    false
}

/// Workspace instances that a call of the *external* generic instance `start` can call back into (`TryInto::try_into` ->
/// `<ClassName as TryFrom<..>>::try_from`, `str::parse` -> `FromStr::from_str`, `Into::into` -> `From::from`, `sort` -> `Ord::cmp`, ...):
/// the bodies of external instances whose generic arguments mention a workspace item are walked for calls only.
fn transit<'tcx>(
    tcx: TyCtxt<'tcx>,
    env: TypingEnv<'tcx>,
    ws: &HashSet<&str>,
    start: Instance<'tcx>,
    cache: &mut HashMap<Instance<'tcx>, Vec<Instance<'tcx>>>,
    stats: &mut (usize, usize),
) -> Vec<Instance<'tcx>> {
    if let Some(v) = cache.get(&start) {
        return v.clone();
    }
    let mut out: Vec<Instance<'tcx>> = Vec::new();
    let mut outset: HashSet<Instance<'tcx>> = HashSet::new();
    let mut visited: HashSet<Instance<'tcx>> = HashSet::new();
    let mut stack = vec![start];
    visited.insert(start);
    while let Some(e) = stack.pop() {
        if visited.len() > 4000 {
            stats.1 += 1;
            break;
        }
        match e.def {
            InstanceKind::Virtual(..) | InstanceKind::Intrinsic(..) => continue,
            InstanceKind::Item(d) => {
                if !tcx.is_mir_available(d) {
                    continue;
                }
            }
            _ => {}
        }
        stats.0 += 1;
        let body: &Body<'tcx> = tcx.instance_mir(e.def);
        let cx = Ctx { tcx, env, inst: e };
        for bb in body.basic_blocks.iter() {
            // fn items taken as values (`Argument::new_display::<T>` stores `<T as Display>::fmt`, `map(T::from)`, ...)
            let mut consts: Vec<Instance<'tcx>> = Vec::new();
            let mut on_op = |op: &Operand<'tcx>| {
                if let Operand::Constant(c) = op {
                    if let ty::FnDef(did, args) = cx.subst(c.const_.ty()).kind() {
                        if let Ok(Some(ci)) = Instance::try_resolve(tcx, env, *did, args) {
                            consts.push(ci);
                        }
                    }
                }
            };
            for st in &bb.statements {
                if let StatementKind::Assign(b) = &st.kind {
                    visit_rvalue_operands(&b.1, &mut on_op);
                }
            }
            if let TerminatorKind::Call { args, .. } = &bb.terminator().kind {
                for a in args.iter() {
                    on_op(&a.node);
                }
            }
            for ci in consts {
                let ck = tcx.crate_name(ci.def_id().krate);
                if ws.contains(ck.as_str()) {
                    if outset.insert(ci) {
                        out.push(ci);
                    }
                } else if mentions_ws(tcx, ws, ci.args) && visited.insert(ci) {
                    stack.push(ci);
                }
            }
            if let TerminatorKind::Call { func, .. } = &bb.terminator().kind {
                let fty = cx.subst(func.ty(&body.local_decls, tcx));
                if let ty::FnDef(cdid, cargs) = fty.kind() {
                    if let Ok(Some(ci)) = Instance::try_resolve(tcx, env, *cdid, cargs) {
                        let ck = tcx.crate_name(ci.def_id().krate);
                        if ws.contains(ck.as_str()) {
                            if outset.insert(ci) {
                                out.push(ci);
                            }
                        } else if mentions_ws(tcx, ws, ci.args) && visited.insert(ci) {
                            stack.push(ci);
                        }
                    }
                }
            }
        }
    }
    cache.insert(start, out.clone());
    out
}

fn enqueue_fn_const<'tcx>(
    cx: &Ctx<'tcx>,
    op: &Operand<'tcx>,
    seen: &mut Seen<'tcx>,
    queue: &mut VecDeque<(Instance<'tcx>, String)>,
    entry: &str,
) -> Option<String> {
    if let Operand::Constant(c) = op {
        let ty = cx.subst(c.const_.ty());
        match ty.kind() {
            ty::FnDef(did, args) => {
                if let Ok(Some(ci)) = Instance::try_resolve(cx.tcx, cx.env, *did, args) {
                    if seen.insert(ci) {
                        queue.push_back((ci, entry.to_string()));
                    }
                    return Some(def_key(cx.tcx, ci.def_id()));
                }
            }
            ty::Closure(did, args) => {
                let ci = Instance::resolve_closure(cx.tcx, *did, args, args.as_closure().kind());
                if seen.insert(ci) {
                    queue.push_back((ci, entry.to_string()));
                }
                return Some(def_key(cx.tcx, ci.def_id()));
            }
            _ => {}
        }
    }
    None
}

#[allow(dead_code)]
fn _unused(_: BinOp) {}
