//! ADT table, impl table, trait table, const table.

use rustc_hir::def::DefKind;
use rustc_hir::def_id::LocalDefId;
use rustc_middle::ty::{self, Ty, TyCtxt};

use crate::hirdump::const_value_json;
use crate::jo;
use crate::json::J;
use crate::util::*;

/// Structured type tree: lets rules walk `Option<Vec<Foo>>` without parsing strings.
pub fn ty_tree<'tcx>(tcx: TyCtxt<'tcx>, t: Ty<'tcx>, depth: usize) -> J {
    if depth > 12 {
        return jo! {"t": J::s("deep"), "s": J::S(ty_str(t))};
    }
    match t.kind() {
        ty::Bool | ty::Char | ty::Int(_) | ty::Uint(_) | ty::Float(_) | ty::Str | ty::Never => {
            jo! {"t": J::s("prim"), "name": J::S(ty_str(t))}
        }
        ty::Adt(def, args) => {
            let a: Vec<J> = args.types().map(|x| ty_tree(tcx, x, depth + 1)).collect();
            jo! {"t": J::s("adt"), "path": J::S(def_path(tcx, def.did())), "args": J::A(a)}
        }
        ty::Ref(_, inner, m) => jo! {"t": J::s("ref"), "mut": J::B(m.is_mut()), "inner": ty_tree(tcx, *inner, depth + 1)},
        ty::RawPtr(inner, _) => jo! {"t": J::s("ptr"), "inner": ty_tree(tcx, *inner, depth + 1)},
        ty::Slice(inner) => jo! {"t": J::s("slice"), "inner": ty_tree(tcx, *inner, depth + 1)},
        ty::Array(inner, len) => {
            jo! {"t": J::s("array"), "inner": ty_tree(tcx, *inner, depth + 1), "len": J::S(any_str(len))}
        }
        ty::Tuple(ts) => jo! {"t": J::s("tuple"), "elems": J::A(ts.iter().map(|x| ty_tree(tcx, x, depth + 1)).collect())},
        ty::Param(p) => jo! {"t": J::s("param"), "name": J::S(p.name.to_string())},
        _ => jo! {"t": J::s("other"), "s": J::S(ty_str(t))},
    }
}

pub fn dump_items<'tcx>(tcx: TyCtxt<'tcx>) -> (J, J, J, J) {
    let mut adts = Vec::new();
    let mut impls = Vec::new();
    let mut traits = Vec::new();
    let mut consts = Vec::new();

    for id in tcx.hir_crate_items(()).definitions() {
        let did = id.to_def_id();
        match tcx.def_kind(did) {
            DefKind::Struct | DefKind::Enum | DefKind::Union => adts.push(dump_adt(tcx, id)),
            DefKind::Impl { .. } => impls.push(dump_impl(tcx, id)),
            DefKind::Trait => {
                let methods: Vec<J> = tcx
                    .associated_items(did)
                    .in_definition_order()
                    .filter(|a| a.is_fn())
                    .map(|a| {
                        jo! {
                            "name": J::S(a.opt_name().map(|n| n.to_string()).unwrap_or_default()),
                            "key": J::S(def_key(tcx, a.def_id)),
                            "has_default": J::B(a.defaultness(tcx).has_value()),
                        }
                    })
                    .collect();
                traits.push(jo! {
                    "path": J::S(def_path(tcx, did)),
                    "key": J::S(def_key(tcx, did)),
                    "methods": J::A(methods),
                    "sp": J::S(span_str(tcx, tcx.def_span(did))),
                });
            }
            DefKind::Const { .. } | DefKind::AssocConst { .. } => {
                // trait-level associated consts without a value cannot be evaluated
                let is_trait_item = tcx.trait_of_assoc(did).is_some();
                let ty = tcx.type_of(did).instantiate_identity().skip_norm_wip();
                let value = if is_trait_item { J::Null } else { const_value_json(tcx, did) };
                consts.push(jo! {
                    "path": J::S(def_path(tcx, did)),
                    "key": J::S(def_key(tcx, did)),
                    "name": J::S(tcx.item_name(did).to_string()),
                    "ty": J::S(ty_str(ty)),
                    "value": value,
                    "sp": J::S(span_str(tcx, tcx.def_span(did))),
                });
            }
            _ => {}
        }
    }
    (J::A(adts), J::A(impls), J::A(traits), J::A(consts))
}

fn dump_adt<'tcx>(tcx: TyCtxt<'tcx>, id: LocalDefId) -> J {
    let did = id.to_def_id();
    let def = tcx.adt_def(did);
    let mut variants = Vec::new();
    for v in def.variants() {
        let mut fields = Vec::new();
        for f in &v.fields {
            let fty = tcx.type_of(f.did).instantiate_identity().skip_norm_wip();
            fields.push(jo! {
                "name": J::S(f.name.to_string()),
                "ty": J::S(ty_str(fty)),
                "tree": ty_tree(tcx, fty, 0),
                "vis": J::S(format!("{:?}", f.vis)),
            });
        }
        let discr = if def.is_enum() {
            let idx = def.variant_index_with_id(v.def_id);
            match def.discriminant_for_variant(tcx, idx) {
                d => J::I(d.val as i128),
            }
        } else {
            J::Null
        };
        variants.push(jo! {
            "name": J::S(v.name.to_string()),
            "ctor": J::S(format!("{:?}", v.ctor_kind())),
            "fields": J::A(fields),
            "discr": discr,
        });
    }
    let kind = if def.is_enum() {
        "enum"
    } else if def.is_union() {
        "union"
    } else {
        "struct"
    };
    jo! {
        "path": J::S(def_path(tcx, did)),
        "key": J::S(def_key(tcx, did)),
        "kind": J::s(kind),
        "vis": J::S(format!("{:?}", tcx.visibility(did))),
        "variants": J::A(variants),
        "sp": J::S(span_str(tcx, tcx.def_span(did))),
        "mac": mac_json(tcx.def_span(did)).unwrap_or(J::Null),
    }
}

fn dump_impl<'tcx>(tcx: TyCtxt<'tcx>, id: LocalDefId) -> J {
    let did = id.to_def_id();
    let self_ty = tcx.type_of(did).instantiate_identity().skip_norm_wip();
    let trait_ref = tcx.impl_opt_trait_ref(did).map(|t| t.skip_binder());
    let items: Vec<J> = tcx
        .associated_items(did)
        .in_definition_order()
        .map(|a| {
            jo! {
                "name": J::S(a.opt_name().map(|n| n.to_string()).unwrap_or_default()),
                "key": J::S(def_key(tcx, a.def_id)),
                "kind": J::S(format!("{:?}", a.tag())),
            }
        })
        .collect();
    let span = tcx.def_span(did);
    jo! {
        "key": J::S(def_key(tcx, did)),
        "self_ty": J::S(ty_str(self_ty)),
        "self_tree": ty_tree(tcx, self_ty, 0),
        "trait": trait_ref.map(|t| J::S(def_path(tcx, t.def_id))).unwrap_or(J::Null),
        "trait_ref": trait_ref.map(|t| J::S(any_str(t))).unwrap_or(J::Null),
        "items": J::A(items),
        "sp": J::S(span_str(tcx, span)),
        "mac": mac_json(span).unwrap_or(J::Null),
    }
}
