#![feature(rustc_private)]
//! Fact extractor for the /verif static-analysis rules.
//!
//! Used as `RUSTC_WORKSPACE_WRAPPER`: cargo passes the real rustc path as argv[1].
//! Output: one JSON file per crate (and target kind) under `$FBR_FACTS_DIR`.

extern crate rustc_ast;
extern crate rustc_ast_pretty;
extern crate rustc_driver;
extern crate rustc_hir;
extern crate rustc_interface;
extern crate rustc_middle;
extern crate rustc_span;

mod astdump;
mod hirdump;
mod items;
mod json;
mod mono;
mod util;

use rustc_driver::Compilation;
use rustc_interface::interface::Compiler;
use rustc_middle::ty::TyCtxt;

use json::J;

struct Cb {
    mac_calls: Option<J>,
    fmt: Option<(J, J)>,
}

impl rustc_driver::Callbacks for Cb {
    fn after_crate_root_parsing(&mut self, compiler: &Compiler, krate: &mut rustc_ast::Crate) -> Compilation {
        self.mac_calls = Some(astdump::dump_mac_calls(compiler.sess.source_map(), krate));
        Compilation::Continue
    }

    fn after_expansion<'tcx>(&mut self, _c: &Compiler, tcx: TyCtxt<'tcx>) -> Compilation {
        self.fmt = Some(astdump::dump_format_args(tcx));
        Compilation::Continue
    }

    fn after_analysis<'tcx>(&mut self, _c: &Compiler, tcx: TyCtxt<'tcx>) -> Compilation {
        let Ok(dir) = std::env::var("FBR_FACTS_DIR") else { return Compilation::Continue };
        let name = tcx.crate_name(rustc_span::def_id::LOCAL_CRATE).to_string();
        if !mono::WORKSPACE.contains(&name.as_str()) && name != "duke_macros" {
            return Compilation::Continue;
        }
        let is_test = tcx.sess.is_test_crate();
        let crate_types: Vec<String> = tcx.crate_types().iter().map(|c| format!("{:?}", c)).collect();

        let mut o: Vec<(&'static str, J)> = vec![
            ("crate", J::S(name.clone())),
            ("cfg_test", J::B(is_test)),
            ("crate_types", J::A(crate_types.iter().cloned().map(J::S).collect())),
        ];
        let src = tcx
            .sess
            .local_crate_source_file()
            .and_then(|p| p.local_path().map(|p| p.display().to_string()))
            .unwrap_or_default();
        o.push(("root_file", J::S(src.clone())));

        if name == "fbr_entries" {
            o.push(("mono", mono::walk(tcx)));
        }
        let (adts, impls, traits, consts) = items::dump_items(tcx);
        o.push(("adts", adts));
        o.push(("impls", impls));
        o.push(("traits", traits));
        o.push(("consts", consts));
        let mut bodies = Vec::new();
        for def in tcx.hir_body_owners() {
            if let Some(b) = hirdump::dump_body(tcx, def) {
                bodies.push(b);
            }
        }
        o.push(("bodies", J::A(bodies)));
        if let Some(m) = self.mac_calls.take() {
            o.push(("macro_calls", m));
        }
        if let Some((f, d)) = self.fmt.take() {
            o.push(("format_args", f));
            o.push(("macro_defs", d));
        }
        let mut s = String::new();
        J::O(o).write(&mut s);
        // one file per (crate, root file, test?) — a crate may be compiled as lib and as bin/test
        let tag = src.replace(['/', '\\', '.'], "_");
        let fname = format!("{}/{}{}__{}.json", dir, name, if is_test { "__test" } else { "" }, tag);
        let tmp = format!("{}.tmp{}", fname, std::process::id());
        std::fs::write(&tmp, s).expect("write facts");
        std::fs::rename(&tmp, &fname).expect("rename facts");
        Compilation::Continue
    }
}

fn main() {
    let mut args: Vec<String> = std::env::args().collect();
    // RUSTC_WORKSPACE_WRAPPER: argv[1] is the path of the real rustc
    if args.len() > 1 && (args[1].ends_with("rustc") || args[1].contains("/rustc")) {
        args.remove(1);
    }
    let mut cb = Cb { mac_calls: None, fmt: None };
    rustc_driver::run_compiler(&args, &mut cb);
}
