#!/usr/bin/env python3
"""Regenerates MANIFEST.json from tools/manifest_data.py (claimed checks) and properties.jsonl."""
import json, os, sys
here = os.path.dirname(os.path.dirname(os.path.abspath(__file__)))
sys.path.insert(0, os.path.join(here, "tools"))
sys.path.insert(0, here)
import importlib
import manifest_data as D

for l in open(os.path.join(here, "properties.jsonl")):
    pid = json.loads(l)["id"]
    try:
        mod = importlib.import_module("rules.%s" % pid.lower())
    except ModuleNotFoundError:
        continue
    if hasattr(mod, "CLAIM") and pid not in D.CLAIMS:
        D.CLAIMS[pid] = mod.CLAIM

props = [json.loads(l) for l in open(os.path.join(here, "properties.jsonl"))]
checks = []
na = []
for p in props:
    pid = p["id"]
    if pid in D.CLAIMS and pid in D.ENABLED:
        c = D.CLAIMS[pid]
        checks.append({
            "property_id": pid,
            "quick_cmd": "./check %s --tier quick" % pid,
            "thorough_cmd": "./check %s --tier thorough" % pid,
            "evidence_file": "evidence/%s.json" % pid,
            "replay_cmd_template": "./check %s --explain {path}" % pid,
            "engine": "fbr-static",
            "level_claimed": {"category": "other", "text": c["text"], "design_ref": c.get("design_ref", "DESIGN.md §4 " + pid)},
            "level_note": c["note"],
            "technique": c["technique"],
        })
    else:
        na.append({"property_id": pid, "reason": D.NOT_APPLICABLE.get(pid, "rules not implemented yet in this round; see DESIGN.md §4")})
m = {
    "version": 1,
    "setup_cmd": "cd driver && CARGO_NET_OFFLINE=true cargo +nightly build --release --offline",
    "hooks": {
        "guard": "zeichenreihe_feather_build_rs_verif",
        "enable": "none needed: the checks read the type-checked program through a rustc_private driver (RUSTC_WORKSPACE_WRAPPER) and never build /repo with a hook",
        "baseline_off_cmd": "cd /repo && cargo test --workspace --no-fail-fast --offline",
        "source_commits": D.HOOK_COMMITS,
        "add_only": True,
    },
    "engines": [
        {"name": "fbr-static", "path": "check", "serves_properties": sorted(k for k in D.CLAIMS if k in D.ENABLED),
         "kind_free_text": "custom static analysis: rustc_private fact extractor (typed HIR, ADT/const tables, macro token trees, FormatArgs, monomorphic instance graph + MIR) and repository-specific Python rules (decision tables, traversal completeness, guard dominance, layout agreement, interval analysis)"},
    ],
    "checks": checks,
    "not_applicable": na,
    "notes": D.NOTES,
}
json.dump(m, open(os.path.join(here, "MANIFEST.json"), "w"), indent=1)
print("claimed:", len(checks), "not_applicable:", len(na))
