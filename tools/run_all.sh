#!/bin/sh
# runs every claimed check (quick tier) on /repo and prints one summary line each; exit 1 if any fails
cd "$(dirname "$0")/.."
rc=0
for p in $(python3 -c "import json;print(' '.join(c['property_id'] for c in json.load(open('MANIFEST.json'))['checks']))") "$@"; do
  out=$(./check $p --tier quick 2>&1); r=$?
  echo "$out" | tail -1 | sed "s/^/[rc=$r] /"
  [ $r -ne 0 ] && { rc=1; echo "$out" | grep -A4 '^VIOLATION' | head -30; }
done
exit $rc
