#!/usr/bin/env python3
"""Run checks against a scratch copy of /repo with a mutation applied.

  tools/mut.py C19 [C07 ...] --sub FILE OLD NEW [--sub ...]      exact single-occurrence text replacement
  tools/mut.py C19 --patch some.diff
  --build   also run `cargo check --offline` (stable) on the mutated copy to confirm it compiles
The scratch copy (and its build output) is removed afterwards.
"""
import argparse
import os
import shutil
import subprocess
import sys
import tempfile

ap = argparse.ArgumentParser()
ap.add_argument("props", nargs="+")
ap.add_argument("--sub", nargs=3, action="append", default=[])
ap.add_argument("--patch", action="append", default=[])
ap.add_argument("--tier", default="quick")
ap.add_argument("--keep", action="store_true")
ap.add_argument("--nth", type=int, default=None, help="replace only the n-th (1-based) occurrence instead of requiring uniqueness")
args = ap.parse_args()

here = os.path.dirname(os.path.dirname(os.path.abspath(__file__)))
tmp = tempfile.mkdtemp(prefix="fbr-mut-")
repo = os.path.join(tmp, "repo")
try:
    shutil.copytree("/repo", repo, ignore=shutil.ignore_patterns("target", ".git"))
    for f, old, new in args.sub:
        p = os.path.join(repo, f)
        s = open(p).read()
        n = s.count(old)
        if args.nth is not None:
            parts = s.split(old)
            if len(parts) <= args.nth:
                print("MUT: only %d occurrences of %r in %s" % (n, old, f)); sys.exit(3)
            s = old.join(parts[:args.nth]) + new + old.join(parts[args.nth:])
        else:
            if n != 1:
                print("MUT: %d occurrences of %r in %s (need exactly 1)" % (n, old, f)); sys.exit(3)
            s = s.replace(old, new)
        open(p, "w").write(s)
    for pf in args.patch:
        r = subprocess.run(["patch", "-p1", "-i", os.path.abspath(pf)], cwd=repo, stdout=subprocess.PIPE, stderr=subprocess.STDOUT, text=True)
        if r.returncode != 0:
            print("MUT: patch failed\n" + r.stdout); sys.exit(3)
    rc_all = 0
    for p in args.props:
        env = dict(os.environ, VERIF_EVIDENCE_DIR=os.path.join(tmp, "evidence"))
        r = subprocess.run([os.path.join(here, "check"), p, "--repo", repo, "--tier", args.tier], env=env, stdout=subprocess.PIPE, stderr=subprocess.STDOUT, text=True)
        print(r.stdout.replace(repo + "/", ""))
        rc_all |= r.returncode
    sys.exit(rc_all)
finally:
    if not args.keep:
        shutil.rmtree(tmp, ignore_errors=True)
