#!/usr/bin/env python3
"""Confirms a seeded property-breaking change and runs the checks against it.

  tools/seed_verify.py <seed-dir> <worktree> [--props C07 C02 ...] [--name C07-1]

<seed-dir> holds patch.diff, demo.rs (or demo/), meta.json (property, demo_location).  In <worktree> (a scratch git
worktree of /repo, outside /repo and /verif):
  1. patch applied + demo dropped in  -> the demo must FAIL, the existing suite (without the demo) must PASS;
  2. patch reverted                   -> the demo must PASS.
Then the listed checks (default: the seed's property) are run on a scratch copy of /repo with the patch applied
(tools/mut.py).  The outcome is written to /verif/seeded/<name>/ (patch.diff, demo, meta.json with `confirmed` and `detected_by`).
"""
import argparse
import json
import os
import shutil
import subprocess
import sys

HERE = os.path.dirname(os.path.dirname(os.path.abspath(__file__)))


def run(cmd, cwd, timeout=3000):
    r = subprocess.run(cmd, cwd=cwd, stdout=subprocess.PIPE, stderr=subprocess.STDOUT, text=True, timeout=timeout,
                       env=dict(os.environ, CARGO_NET_OFFLINE="true"))
    return r.returncode, r.stdout


def main():
    ap = argparse.ArgumentParser()
    ap.add_argument("seed")
    ap.add_argument("worktree")
    ap.add_argument("--props", nargs="*")
    ap.add_argument("--name")
    ap.add_argument("--skip-confirm", action="store_true")
    a = ap.parse_args()
    seed = os.path.abspath(a.seed)
    wt = os.path.abspath(a.worktree)
    meta = json.load(open(os.path.join(seed, "meta.json")))
    prop = meta["property"].split()[0].strip(":")
    name = a.name or "%s-%s" % (prop, os.path.basename(seed.rstrip("/")))
    props = a.props or [prop]
    patch = os.path.join(seed, "patch.diff")
    demo_src = os.path.join(seed, "demo.rs")
    demo_loc = (meta.get("demo_location") or "").split()[0].strip("`,;") if meta.get("demo_location") else None
    log = {}
    confirmed = None
    if not a.skip_confirm:
        assert os.path.exists(demo_src) and demo_loc, "demo.rs / demo_location missing"
        crate = demo_loc.split("/")[0]
        test_name = os.path.basename(demo_loc)[:-3]
        pkg = {"src": "feather-build-rs", "tests": "feather-build-rs"}.get(crate, crate)      # root package: tests/<name>.rs
        demo_dst = os.path.join(wt, demo_loc)
        rc, out = run(["git", "status", "--porcelain", "--untracked-files=no"], wt)
        assert out.strip() == "", "worktree has modifications:\n" + out
        # 1. with the change
        rc, out = run(["git", "apply", patch], wt)
        assert rc == 0, "patch does not apply:\n" + out
        try:
            rc_suite, out_suite = run(["cargo", "test", "--workspace", "--no-fail-fast", "--offline"], wt)
            log["suite_with_change"] = {"rc": rc_suite, "tail": out_suite[-1500:]}
            os.makedirs(os.path.dirname(demo_dst), exist_ok=True)
            shutil.copy(demo_src, demo_dst)
            rc_demo1, out_demo1 = run(["cargo", "test", "--offline", "-p", pkg, "--test", test_name], wt)
            log["demo_with_change"] = {"rc": rc_demo1, "tail": out_demo1[-2500:]}
        finally:
            # cargo's freshness check compares mtimes: a revert that lands in the same timestamp tick as the end of the previous build would
            # leave the patched binary in place; wait a tick and bump the mtime of every reverted file
            import time
            time.sleep(1.5)
            run(["git", "checkout", "--", "."], wt)
            for l in open(patch):
                if l.startswith("+++ b/"):
                    fp = os.path.join(wt, l[6:].strip())
                    if os.path.exists(fp):
                        os.utime(fp, None)
        # 2. without the change
        try:
            rc_demo2, out_demo2 = run(["cargo", "test", "--offline", "-p", pkg, "--test", test_name], wt)
            log["demo_without_change"] = {"rc": rc_demo2, "tail": out_demo2[-1500:]}
        finally:
            if os.path.exists(demo_dst):
                os.remove(demo_dst)
        if rc_demo2 != 0:
            print("demo without the change failed:\n" + out_demo2[-2500:])
        compiled = "error: could not compile" not in out_demo1 and "error[E" not in out_demo1
        confirmed = (rc_suite == 0 and rc_demo1 != 0 and compiled and rc_demo2 == 0)
        print("suite with change: rc=%d | demo with change: rc=%d (compiled=%s) | demo without: rc=%d  => confirmed=%s" % (
            rc_suite, rc_demo1, compiled, rc_demo2, confirmed))
    # 3. the checks
    detected = {}
    for p in props:
        rc, out = run([os.path.join(HERE, "tools", "mut.py"), p, "--patch", patch], HERE)
        viol = [l.strip() for l in out.splitlines() if l.strip().startswith("rule ")]
        detected[p] = {"rc": rc, "violations": viol[:12]}
        print("%s: rc=%d  %s" % (p, rc, "; ".join(viol[:4]) if viol else "no violation reported"))
    dst = os.path.join(HERE, "seeded", name)
    os.makedirs(dst, exist_ok=True)
    shutil.copy(patch, os.path.join(dst, "patch.diff"))
    if os.path.exists(demo_src):
        shutil.copy(demo_src, os.path.join(dst, "demo.rs"))
    meta_out = dict(meta)
    meta_out["breaks_property"] = prop
    if confirmed is not None:
        meta_out["confirmed_by_rerun"] = confirmed
        meta_out["confirmation"] = {k: {"rc": v["rc"]} for k, v in log.items()}
        meta_out["what_i_ran"] = [
            "git apply patch.diff; cargo test --workspace --no-fail-fast --offline (must pass); cargo test -p <crate> --test <demo> (must fail)",
            "git checkout -- .; cargo test -p <crate> --test <demo> (must pass)",
            "tools/mut.py <props> --patch patch.diff (checks on a scratch copy of /repo with the change applied)"]
    meta_out["detected_by"] = {p: (d["rc"] != 0) for p, d in detected.items()}
    meta_out["violations_reported"] = {p: d["violations"] for p, d in detected.items()}
    json.dump(meta_out, open(os.path.join(dst, "meta.json"), "w"), indent=1)
    return 0


if __name__ == "__main__":
    sys.exit(main())
