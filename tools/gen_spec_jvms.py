#!/usr/bin/env python3
"""Writes spec/jvms_tables.json — reference tables transcribed from JVMS (SE 21) chapters 4 and 6.
This file is the source of the committed JSON; it does not read /repo."""
import json, os
here = os.path.dirname(os.path.dirname(os.path.abspath(__file__)))

mn = {}
def put(start, names):
    for i, n in enumerate(names):
        mn[start + i] = n
put(0x00, ["nop", "aconst_null", "iconst_m1", "iconst_0", "iconst_1", "iconst_2", "iconst_3", "iconst_4", "iconst_5", "lconst_0", "lconst_1",
           "fconst_0", "fconst_1", "fconst_2", "dconst_0", "dconst_1", "bipush", "sipush", "ldc", "ldc_w", "ldc2_w", "iload", "lload", "fload", "dload", "aload"])
put(0x1a, ["%sload_%d" % (t, i) for t in "ilfda" for i in range(4)])
put(0x2e, ["iaload", "laload", "faload", "daload", "aaload", "baload", "caload", "saload", "istore", "lstore", "fstore", "dstore", "astore"])
put(0x3b, ["%sstore_%d" % (t, i) for t in "ilfda" for i in range(4)])
put(0x4f, ["iastore", "lastore", "fastore", "dastore", "aastore", "bastore", "castore", "sastore", "pop", "pop2", "dup", "dup_x1", "dup_x2", "dup2", "dup2_x1", "dup2_x2", "swap"])
put(0x60, ["%s%s" % (t, op) for op in ("add", "sub", "mul", "div", "rem", "neg") for t in "ilfd"])
put(0x78, ["ishl", "lshl", "ishr", "lshr", "iushr", "lushr", "iand", "land", "ior", "lor", "ixor", "lxor", "iinc",
           "i2l", "i2f", "i2d", "l2i", "l2f", "l2d", "f2i", "f2l", "f2d", "d2i", "d2l", "d2f", "i2b", "i2c", "i2s", "lcmp", "fcmpl", "fcmpg", "dcmpl", "dcmpg",
           "ifeq", "ifne", "iflt", "ifge", "ifgt", "ifle", "if_icmpeq", "if_icmpne", "if_icmplt", "if_icmpge", "if_icmpgt", "if_icmple", "if_acmpeq", "if_acmpne",
           "goto", "jsr", "ret", "tableswitch", "lookupswitch", "ireturn", "lreturn", "freturn", "dreturn", "areturn", "return",
           "getstatic", "putstatic", "getfield", "putfield", "invokevirtual", "invokespecial", "invokestatic", "invokeinterface", "invokedynamic",
           "new", "newarray", "anewarray", "arraylength", "athrow", "checkcast", "instanceof", "monitorenter", "monitorexit", "wide", "multianewarray",
           "ifnull", "ifnonnull", "goto_w", "jsr_w"])
assert mn[0xc9] == "jsr_w" and mn[0xb1] == "return" and mn[0x84] == "iinc" and mn[0x99] == "ifeq" and mn[0xa7] == "goto" and len(mn) == 0xca

operand_bytes = {}
kinds = {}
for v, n in mn.items():
    operand_bytes[n] = 0
    kinds[n] = []
def setop(names, nbytes, kind):
    for n in names:
        operand_bytes[n] = nbytes
        kinds[n] = kind
setop(["bipush"], 1, ["i8"])
setop(["sipush"], 2, ["i16"])
setop(["ldc"], 1, ["u8:loadable"])
setop(["ldc_w", "ldc2_w"], 2, ["u16:loadable"])
setop(["iload", "lload", "fload", "dload", "aload", "istore", "lstore", "fstore", "dstore", "astore", "ret"], 1, ["u8:lv"])
setop(["iinc"], 2, ["u8:lv", "i8"])
branch16 = ["ifeq", "ifne", "iflt", "ifge", "ifgt", "ifle", "if_icmpeq", "if_icmpne", "if_icmplt", "if_icmpge", "if_icmpgt", "if_icmple", "if_acmpeq", "if_acmpne", "goto", "jsr", "ifnull", "ifnonnull"]
setop(branch16, 2, ["i16:label"])
setop(["goto_w", "jsr_w"], 4, ["i32:label"])
setop(["getstatic", "putstatic", "getfield", "putfield"], 2, ["u16:fieldref"])
setop(["invokevirtual"], 2, ["u16:methodref"])
setop(["invokespecial", "invokestatic"], 2, ["u16:methodref|imethodref"])
setop(["invokeinterface"], 4, ["u16:imethodref", "u8", "u8"])
setop(["invokedynamic"], 4, ["u16:indy", "u8", "u8"])
setop(["new", "anewarray", "checkcast", "instanceof"], 2, ["u16:class"])
setop(["newarray"], 1, ["u8:atype"])
setop(["multianewarray"], 3, ["u16:class", "u8"])
operand_bytes["tableswitch"] = "var"
operand_bytes["lookupswitch"] = "var"
operand_bytes["wide"] = "var"

aliases = {"ldc_w": "ldc", "ldc2_w": "ldc", "goto_w": "goto", "jsr_w": "jsr"}
opcodes = []
for v in sorted(mn):
    n = mn[v]
    base = aliases.get(n, n)
    implied = None
    if len(n) > 2 and n[-2] == "_" and n[-1] in "0123" and (n[1:-2] in ("load", "store")):
        base = n[:-2]
        implied = int(n[-1])
    opcodes.append({"value": v, "mnemonic": n, "operand_bytes": operand_bytes[n], "operands": kinds[n], "variant_key": base.replace("_", ""), "implied_index": implied})

wide = [{"mnemonic": m, "value": next(v for v, n in mn.items() if n == m), "operand_bytes": 2, "operands": ["u16:lv"], "variant_key": m}
        for m in ["iload", "lload", "fload", "dload", "aload", "istore", "lstore", "fstore", "dstore", "astore", "ret"]]
wide.append({"mnemonic": "iinc", "value": 0x84, "operand_bytes": 4, "operands": ["u16:lv", "i16"], "variant_key": "iinc"})

negation = {"ifeq": "ifne", "iflt": "ifge", "ifgt": "ifle", "if_icmpeq": "if_icmpne", "if_icmplt": "if_icmpge", "if_icmpgt": "if_icmple", "if_acmpeq": "if_acmpne", "ifnull": "ifnonnull"}
negation.update({v: k for k, v in list(negation.items())})

pool_tags = {"Utf8": 1, "Integer": 3, "Float": 4, "Long": 5, "Double": 6, "Class": 7, "String": 8, "Fieldref": 9, "Methodref": 10, "InterfaceMethodref": 11,
             "NameAndType": 12, "MethodHandle": 15, "MethodType": 16, "Dynamic": 17, "InvokeDynamic": 18, "Module": 19, "Package": 20}
pool_layout = {"Utf8": ["u16:len", "bytes"], "Integer": ["u32"], "Float": ["u32"], "Long": ["u32", "u32"], "Double": ["u32", "u32"], "Class": ["u16"], "String": ["u16"],
               "Fieldref": ["u16", "u16"], "Methodref": ["u16", "u16"], "InterfaceMethodref": ["u16", "u16"], "NameAndType": ["u16", "u16"],
               "MethodHandle": ["u8", "u16"], "MethodType": ["u16"], "Dynamic": ["u16", "u16"], "InvokeDynamic": ["u16", "u16"], "Module": ["u16"], "Package": ["u16"]}
mh = {"getField": 1, "getStatic": 2, "putField": 3, "putStatic": 4, "invokeVirtual": 5, "invokeStatic": 6, "invokeSpecial": 7, "newInvokeSpecial": 8, "invokeInterface": 9}
mh_target = {1: "Fieldref", 2: "Fieldref", 3: "Fieldref", 4: "Fieldref", 5: "Methodref", 6: "Methodref|InterfaceMethodref", 7: "Methodref|InterfaceMethodref", 8: "Methodref", 9: "InterfaceMethodref"}
atype = {"boolean": 4, "char": 5, "float": 6, "double": 7, "byte": 8, "short": 9, "int": 10, "long": 11}

attributes = {
 "ConstantValue": ["field"], "Code": ["method"], "StackMapTable": ["code"], "Exceptions": ["method"], "InnerClasses": ["class"], "EnclosingMethod": ["class"],
 "Synthetic": ["class", "field", "method"], "Signature": ["class", "field", "method", "record_component"], "SourceFile": ["class"], "SourceDebugExtension": ["class"],
 "LineNumberTable": ["code"], "LocalVariableTable": ["code"], "LocalVariableTypeTable": ["code"], "Deprecated": ["class", "field", "method"],
 "RuntimeVisibleAnnotations": ["class", "field", "method", "record_component"], "RuntimeInvisibleAnnotations": ["class", "field", "method", "record_component"],
 "RuntimeVisibleParameterAnnotations": ["method"], "RuntimeInvisibleParameterAnnotations": ["method"],
 "RuntimeVisibleTypeAnnotations": ["class", "field", "method", "code", "record_component"], "RuntimeInvisibleTypeAnnotations": ["class", "field", "method", "code", "record_component"],
 "AnnotationDefault": ["method"], "BootstrapMethods": ["class"], "MethodParameters": ["method"], "Module": ["class"], "ModulePackages": ["class"], "ModuleMainClass": ["class"],
 "NestHost": ["class"], "NestMembers": ["class"], "Record": ["class"], "PermittedSubclasses": ["class"],
}
fixed_length = {"ConstantValue": 2, "Synthetic": 0, "Deprecated": 0, "Signature": 2, "SourceFile": 2, "EnclosingMethod": 4, "ModuleMainClass": 2, "NestHost": 2}
count_widths = {"Exceptions": 16, "InnerClasses": 16, "LineNumberTable": 16, "LocalVariableTable": 16, "LocalVariableTypeTable": 16, "BootstrapMethods": 16,
                "MethodParameters": 8, "ModulePackages": 16, "NestMembers": 16, "PermittedSubclasses": 16, "Record": 16, "StackMapTable": 16,
                "RuntimeVisibleAnnotations": 16, "RuntimeInvisibleAnnotations": 16, "RuntimeVisibleTypeAnnotations": 16, "RuntimeInvisibleTypeAnnotations": 16,
                "RuntimeVisibleParameterAnnotations": 8, "RuntimeInvisibleParameterAnnotations": 8}

target_types = {
 0x00: {"name": "class type parameter", "loc": "class", "info": ["u8"]}, 0x01: {"name": "method type parameter", "loc": "method", "info": ["u8"]},
 0x10: {"name": "supertype", "loc": "class", "info": ["u16"]},
 0x11: {"name": "class type parameter bound", "loc": "class", "info": ["u8", "u8"]}, 0x12: {"name": "method type parameter bound", "loc": "method", "info": ["u8", "u8"]},
 0x13: {"name": "field / record component", "loc": "field", "info": []}, 0x14: {"name": "method return", "loc": "method", "info": []}, 0x15: {"name": "method receiver", "loc": "method", "info": []},
 0x16: {"name": "formal parameter", "loc": "method", "info": ["u8"]}, 0x17: {"name": "throws", "loc": "method", "info": ["u16"]},
 0x40: {"name": "local variable", "loc": "code", "info": ["table"]}, 0x41: {"name": "resource variable", "loc": "code", "info": ["table"]},
 0x42: {"name": "exception parameter", "loc": "code", "info": ["u16"]},
 0x43: {"name": "instanceof", "loc": "code", "info": ["u16:label"]}, 0x44: {"name": "new", "loc": "code", "info": ["u16:label"]},
 0x45: {"name": "constructor reference", "loc": "code", "info": ["u16:label"]}, 0x46: {"name": "method reference", "loc": "code", "info": ["u16:label"]},
 0x47: {"name": "cast", "loc": "code", "info": ["u16:label", "u8"]}, 0x48: {"name": "constructor invocation type argument", "loc": "code", "info": ["u16:label", "u8"]},
 0x49: {"name": "method invocation type argument", "loc": "code", "info": ["u16:label", "u8"]}, 0x4a: {"name": "constructor reference type argument", "loc": "code", "info": ["u16:label", "u8"]},
 0x4b: {"name": "method reference type argument", "loc": "code", "info": ["u16:label", "u8"]},
}
type_path_kinds = {"array": 0, "nested": 1, "wildcard bound": 2, "type argument": 3}
element_value_tags = {"B": "Byte", "C": "Char", "D": "Double", "F": "Float", "I": "Integer", "J": "Long", "S": "Short", "Z": "Boolean", "s": "String", "e": "Enum", "c": "Class", "@": "AnnotationInterface", "[": "ArrayType"}
verification_types = {"Top": 0, "Integer": 1, "Float": 2, "Double": 3, "Long": 4, "Null": 5, "UninitializedThis": 6, "Object": 7, "Uninitialized": 8}
verification_payload = {"Object": ["u16:class"], "Uninitialized": ["u16:label"]}
frame_types = [
 {"name": "same", "lo": 0, "hi": 63, "delta": "frame_type", "data": "Same"},
 {"name": "same_locals_1_stack_item", "lo": 64, "hi": 127, "delta": "frame_type-64", "data": "SameLocals1StackItem"},
 {"name": "reserved", "lo": 128, "hi": 246, "delta": None, "data": None},
 {"name": "same_locals_1_stack_item_extended", "lo": 247, "hi": 247, "delta": "u16", "data": "SameLocals1StackItem"},
 {"name": "chop", "lo": 248, "hi": 250, "delta": "u16", "data": "Chop", "k": "251-frame_type"},
 {"name": "same_frame_extended", "lo": 251, "hi": 251, "delta": "u16", "data": "Same"},
 {"name": "append", "lo": 252, "hi": 254, "delta": "u16", "data": "Append", "k": "frame_type-251"},
 {"name": "full_frame", "lo": 255, "hi": 255, "delta": "u16", "data": "Full"},
]
access_flags = {
 "ClassAccess": {"is_public": 0x0001, "is_final": 0x0010, "is_super": 0x0020, "is_interface": 0x0200, "is_abstract": 0x0400, "is_synthetic": 0x1000, "is_annotation": 0x2000, "is_enum": 0x4000, "is_module": 0x8000},
 "FieldAccess": {"is_public": 0x0001, "is_private": 0x0002, "is_protected": 0x0004, "is_static": 0x0008, "is_final": 0x0010, "is_volatile": 0x0040, "is_transient": 0x0080, "is_synthetic": 0x1000, "is_enum": 0x4000},
 "MethodAccess": {"is_public": 0x0001, "is_private": 0x0002, "is_protected": 0x0004, "is_static": 0x0008, "is_final": 0x0010, "is_synchronized": 0x0020, "is_bridge": 0x0040, "is_varargs": 0x0080, "is_native": 0x0100, "is_abstract": 0x0400, "is_strict": 0x0800, "is_synthetic": 0x1000},
 "InnerClassFlags": {"is_public": 0x0001, "is_private": 0x0002, "is_protected": 0x0004, "is_static": 0x0008, "is_final": 0x0010, "is_interface": 0x0200, "is_abstract": 0x0400, "is_synthetic": 0x1000, "is_annotation": 0x2000, "is_enum": 0x4000},
 "ParameterFlags": {"is_final": 0x0010, "is_synthetic": 0x1000, "is_mandated": 0x8000},
 "ModuleFlags": {"is_open": 0x0020, "is_synthetic": 0x1000, "is_mandated": 0x8000},
 "ModuleRequiresFlags": {"is_transitive": 0x0020, "is_static_phase": 0x0040, "is_synthetic": 0x1000, "is_mandated": 0x8000},
 "ModuleExportsFlags": {"is_synthetic": 0x1000, "is_mandated": 0x8000},
 "ModuleOpensFlags": {"is_synthetic": 0x1000, "is_mandated": 0x8000},
}
out = {
 "_source": "JVMS SE 21: ch.6 (instruction set, opcode values and operand sizes), 6.5 if<cond> (negations), 4.4 (constant pool tags and layouts), 4.4.8 table 4.4.8-A (method handle kinds), "
            "6.5 newarray table (atype), 4.7 table 4.7-C (attribute locations), 4.7.x (fixed lengths, count widths), 4.7.20 tables (target_type, type_path_kind), 4.7.16.1 (element_value tags), "
            "4.7.4 (verification types, frame types), tables 4.1-B, 4.5-A, 4.6-A, 4.7.6-A, 4.7.24, 4.7.25 (access flags)",
 "magic": 0xCAFEBABE,
 "opcodes": opcodes, "reserved_opcodes": {"breakpoint": 0xca, "impdep1": 0xfe, "impdep2": 0xff}, "wide_forms": wide, "if_negation": negation,
 "pool_tags": pool_tags, "pool_layout": pool_layout, "pool_two_slots": ["Long", "Double"], "method_handle_kinds": mh, "method_handle_target": {str(k): v for k, v in mh_target.items()},
 "atype": atype, "attributes": attributes, "attribute_fixed_length": fixed_length, "attribute_count_width_bits": count_widths,
 "target_types": {str(k): v for k, v in target_types.items()}, "type_path_kinds": type_path_kinds, "element_value_tags": element_value_tags,
 "verification_types": verification_types, "verification_payload": verification_payload, "frame_types": frame_types, "access_flags": access_flags,
 "align4_padding": {"0": 0, "1": 3, "2": 2, "3": 1},
}
json.dump(out, open(os.path.join(here, "spec", "jvms_tables.json"), "w"), indent=1)
print("opcodes", len(opcodes))
