#!/usr/bin/env python3
"""Summarises a refactor_check log: per patch the (property, rule) pairs that raised a false alarm, with instance counts."""
import re, sys, collections
cur = None
res = collections.OrderedDict()
for l in open(sys.argv[1]):
    m = re.match(r"^(ok|FALSE-ALARM|NOT-APPLIED)\s+(\S+)", l)
    if m:
        cur = m.group(2).split("/")[-2]
        res[cur] = [m.group(1), collections.Counter(), {}]
        continue
    m = re.match(r"^\s+(C\d\d) rule (\S+)\s+instance (\S+)", l)
    if m and cur:
        res[cur][1][(m.group(1), m.group(2))] += 1
        res[cur][2].setdefault((m.group(1), m.group(2)), m.group(3))
n_ok = sum(1 for v in res.values() if v[0] == "ok")
print("%d patches: %d ok, %d false alarm, %d not applied" % (len(res), n_ok, sum(1 for v in res.values() if v[0] == "FALSE-ALARM"), sum(1 for v in res.values() if v[0] == "NOT-APPLIED")))
byprop = collections.defaultdict(list)
for k, (st, c, ex) in res.items():
    if st != "ok":
        print("%-8s %s  %s" % (k, st, "  ".join("%s/%s x%d (%s)" % (p, r, n, ex[(p, r)][:60]) for (p, r), n in c.items())))
        for (p, r) in c:
            byprop[p].append(k)
print()
for p in sorted(byprop):
    print(p, sorted(set(byprop[p])))
