#!/bin/sh
# runs the thorough tier of every claimed check; prints the summary line and the self-test / refactor-corpus outcome of each
cd "$(dirname "$0")/.."
for p in $(python3 -c "import json;print(' '.join(c['property_id'] for c in json.load(open('MANIFEST.json'))['checks']))") ; do
  out=$(./check $p --tier thorough 2>&1); r=$?
  echo "$out" | tail -1 | sed "s/^/[rc=$r] /"
  [ $r -ne 0 ] && echo "$out" | grep -A6 '^VIOLATION' | head -40
  python3 - $p <<'PY'
import json,sys
e=json.load(open('evidence/%s.json'%sys.argv[1]))
def find(d,k):
    if isinstance(d,dict):
        if k in d: return d[k]
        for v in d.values():
            r=find(v,k)
            if r is not None: return r
    return None
st=find(e,'self_test') or {}
rc=find(e,'refactor_corpus') or {}
print('   self-test', st.get('mutants'), st.get('counts'), 'not detected:', [x.get('name') for x in st.get('not_detected',[])])
print('   refactor corpus', {k:(v if not isinstance(v,list) else [x.get('name') for x in v]) for k,v in rc.items()})
PY
done
