#!/bin/sh
# validates MANIFEST.json and all evidence files against the schemas
cd "$(dirname "$0")/.."
python3-vt - <<'PY'
import json,jsonschema,glob
jsonschema.validate(json.load(open('MANIFEST.json')),json.load(open('/root/.vp/MANIFEST.schema.json')))
print('manifest ok')
s=json.load(open('/root/.vp/EVIDENCE.schema.json'))
for f in sorted(glob.glob('evidence/C*.json')):
    jsonschema.validate(json.load(open(f)),s)
    print(f,'ok')
PY
