#!/usr/bin/env python3
"""Runs every released check against every seeded change (scratch copy of /repo with the patch applied) and records the outcome in the
seed's meta.json (`detected_by`: property -> bool for the seed's own property and every property that reports it; `violations_reported`:
the rule instances named) and in seeded/MATRIX.json.

  tools/seed_matrix.py [seed-name ...] [--jobs 3] [--props C01 ...]
"""
import argparse
import concurrent.futures
import glob
import json
import os
import re
import subprocess
import sys

HERE = os.path.dirname(os.path.dirname(os.path.abspath(__file__)))


def one(seed, props):
    patch = os.path.join(HERE, "seeded", seed, "patch.diff")
    r = subprocess.run([os.path.join(HERE, "tools", "mut.py")] + props + ["--patch", patch], cwd=HERE,
                       stdout=subprocess.PIPE, stderr=subprocess.STDOUT, text=True)
    out = r.stdout
    if "MUT: patch failed" in out:
        return seed, None
    res = {}
    lines = out.splitlines()
    for i, l in enumerate(lines):
        if l.startswith("VIOLATION property="):
            pid = l.split("property=")[1].split()[0]
            m = re.search(r"instance (\S+)", lines[i + 1]) if i + 1 < len(lines) else None
            res.setdefault(pid, []).append(m.group(1) if m else "?")
    return seed, res


def main():
    ap = argparse.ArgumentParser()
    ap.add_argument("seeds", nargs="*")
    ap.add_argument("--jobs", type=int, default=3)
    ap.add_argument("--props", nargs="*")
    a = ap.parse_args()
    props = a.props or [c["property_id"] for c in json.load(open(os.path.join(HERE, "MANIFEST.json")))["checks"]]
    seeds = a.seeds or sorted(os.path.basename(d) for d in glob.glob(os.path.join(HERE, "seeded", "C*")))
    matrix_path = os.path.join(HERE, "seeded", "MATRIX.json")
    matrix = json.load(open(matrix_path)) if os.path.exists(matrix_path) else {}
    with concurrent.futures.ThreadPoolExecutor(max_workers=a.jobs) as ex:
        for seed, res in ex.map(lambda s: one(s, props), seeds):
            mp = os.path.join(HERE, "seeded", seed, "meta.json")
            meta = json.load(open(mp))
            own = (meta.get("breaks_property") or meta["property"].split()[0]).strip(":")
            if res is None:
                print("%-8s patch does not apply" % seed, flush=True)
                continue
            crashed = {p: v for p, v in res.items() if any("internal:exception" in x for x in v)}
            det = {p: True for p in res}
            det.setdefault(own, False)
            if not a.props:
                meta["detected_by"] = dict(sorted(det.items()))
                meta["violations_reported"] = {p: sorted(set(v))[:8] for p, v in sorted(res.items())}
            else:
                meta.setdefault("detected_by", {}).update({p: (p in res) for p in props if p == own or p in res})
                meta.setdefault("violations_reported", {}).update({p: sorted(set(v))[:8] for p, v in res.items()})
            json.dump(meta, open(mp, "w"), indent=1)
            matrix[seed] = {"own": own, "detected_by": sorted(res), "own_detects": own in res, "crashes": sorted(crashed)}
            print("%-8s own=%s %-5s by=%s%s" % (seed, own, own in res, ",".join(sorted(res)) or "-", "  CRASH:" + ",".join(crashed) if crashed else ""), flush=True)
            json.dump(matrix, open(matrix_path, "w"), indent=1, sort_keys=True)
    return 0


if __name__ == "__main__":
    sys.exit(main())
