#!/usr/bin/env python3
"""Generates notes/TABLES.md from the evidence files and the seed matrix: per property the rules with their instance counts, the recorded
findings, and which check reports which seeded change (DESIGN.md §11 refers to it)."""
import collections, glob, json, os
HERE = os.path.dirname(os.path.dirname(os.path.abspath(__file__)))
out = ["# Generated tables (tools/design_tables.py) - do not edit by hand", ""]
out += ["## Rules and instance counts per property (from evidence/*.json of the last run)", "",
        "| id | rule: instances | known findings printed | reviewed-safe used |", "|---|---|---|---|"]
for f in sorted(glob.glob(os.path.join(HERE, "evidence", "C*.json"))):
    e = json.load(open(f))
    def find(d, k):
        if isinstance(d, dict):
            if k in d:
                return d[k]
            for v in d.values():
                r = find(v, k)
                if r is not None:
                    return r
    rules = find(e, "rules") or {}
    cells = []
    if isinstance(rules, dict):
        for rid, r in sorted(rules.items()):
            if isinstance(r, dict):
                cells.append("%s: %s" % (rid, r.get("instances", r.get("n", "?"))) + (" (%d viol.)" % r["violations"] if r.get("violations") else ""))
    elif isinstance(rules, list):
        for r in rules:
            cells.append("%s: %s (%s)" % (r.get("id") or r.get("rule"), r.get("instances", "?"), r.get("ok", r.get("hold", "?"))))
    kf = find(e, "known_findings") or find(e, "known_findings_printed") or []
    rs = find(e, "reviewed_safe_used") or []
    out.append("| %s | %s | %d | %d |" % (os.path.basename(f)[:-5], " · ".join(cells) or "see evidence", len(kf), len(rs)))
out += ["", "## Seeded changes and the checks that report them (seeded/MATRIX.json, tools/seed_matrix.py)", "",
        "| seed | breaks | reported by its own check | reported by | files | what it needs to manifest |", "|---|---|---|---|---|---|"]
mp = os.path.join(HERE, "seeded", "MATRIX.json")
matrix = json.load(open(mp)) if os.path.exists(mp) else {}
tot = own = anyc = 0
def skey(s):
    a, b = s.split("-")
    return (a, int(b))
for seed in sorted(matrix, key=skey):
    m = matrix[seed]
    meta = json.load(open(os.path.join(HERE, "seeded", seed, "meta.json")))
    tot += 1
    own += 1 if m["own_detects"] else 0
    anyc += 1 if m["detected_by"] else 0
    rules = []
    for p in m["detected_by"]:
        v = (meta.get("violations_reported") or {}).get(p) or []
        rules.append("%s (%s)" % (p, ", ".join(sorted(set(x.split(":")[0] for x in v)))[:40]))
    out.append("| %s | %s | %s | %s | %s | %s |" % (seed, m["own"], "yes" if m["own_detects"] else "**no**", "; ".join(rules) or "**nobody**",
                                                  ", ".join(os.path.basename(x) for x in (meta.get("files") or []))[:50],
                                                  (meta.get("needs_to_manifest") or "").replace("|", "/").replace("\n", " ")[:160]))
out += ["", "%d seeded changes: %d reported by the check of the property they break, %d reported by at least one check, %d by none." % (tot, own, anyc, tot - anyc), ""]
open(os.path.join(HERE, "notes", "TABLES.md"), "w").write("\n".join(out))
print("\n".join(out[-3:]))
