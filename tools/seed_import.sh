#!/bin/sh
# tools/seed_import.sh <worktree-with-seeds/>   confirms each seeds/<k> (suite green, demo fails/passes) and stores it as seeded/<Cxx>-<n>
wt="$1"
cd "$(dirname "$0")/.."
for d in "$wt"/seeds/[0-9]*; do
  [ -f "$d/meta.json" ] || continue
  prop=$(python3 -c "import json,sys;m=json.load(open('$d/meta.json'));print((m.get('breaks_property') or m['property']).split()[0].strip(':'))")
  n=1; while [ -d "seeded/$prop-$n" ]; do n=$((n+1)); done
  echo "== $d -> $prop-$n"
  python3 tools/seed_verify.py "$d" "$wt" --name "$prop-$n" --props "$prop" 2>&1 | tail -3
done
