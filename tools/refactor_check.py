#!/usr/bin/env python3
"""Runs every released check against behaviour-preserving refactor patches; any VIOLATION is a false alarm.

  tools/refactor_check.py <dir-with-<i>/patch.diff> ... [--props C01 C02 ...] [--jobs 3] [--out FILE]
"""
import argparse
import concurrent.futures
import glob
import json
import os
import subprocess
import sys

HERE = os.path.dirname(os.path.dirname(os.path.abspath(__file__)))


def one(patch, props):
    r = subprocess.run([os.path.join(HERE, "tools", "mut.py")] + props + ["--patch", patch], cwd=HERE,
                       stdout=subprocess.PIPE, stderr=subprocess.STDOUT, text=True)
    out = r.stdout
    alarms = []
    cur = None
    lines = out.splitlines()
    for i, l in enumerate(lines):
        if l.startswith("VIOLATION property="):
            pid = l.split("property=")[1].split()[0]
            rule = lines[i + 1].strip() if i + 1 < len(lines) else ""
            detail = " | ".join(x.strip() for x in lines[i + 2:i + 6] if x.startswith("  "))
            alarms.append({"property": pid, "rule": rule, "detail": detail[:600]})
    applied = "MUT: patch failed" not in out
    return {"patch": patch, "rc": r.returncode, "applied": applied, "alarms": alarms}


def main():
    ap = argparse.ArgumentParser()
    ap.add_argument("dirs", nargs="+")
    ap.add_argument("--props", nargs="*")
    ap.add_argument("--jobs", type=int, default=3)
    ap.add_argument("--out", default=None)
    a = ap.parse_args()
    props = a.props or [c["property_id"] for c in json.load(open(os.path.join(HERE, "MANIFEST.json")))["checks"]]
    patches = []
    for d in a.dirs:
        patches += sorted(glob.glob(os.path.join(d, "*", "patch.diff")))
    res = []
    with concurrent.futures.ThreadPoolExecutor(max_workers=a.jobs) as ex:
        for r in ex.map(lambda p: one(p, props), patches):
            res.append(r)
            tag = "ok" if (r["applied"] and not r["alarms"]) else ("NOT-APPLIED" if not r["applied"] else "FALSE-ALARM")
            print("%-12s %s" % (tag, r["patch"]), flush=True)
            for al in r["alarms"]:
                print("      %s %s\n        %s" % (al["property"], al["rule"], al["detail"]), flush=True)
    if a.out:
        json.dump(res, open(a.out, "w"), indent=1)
    return 0


if __name__ == "__main__":
    sys.exit(main())
