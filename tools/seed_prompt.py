import json,sys,glob,os,re
props={}
for l in open('/verif/properties.jsonl'):
    p=json.loads(l); props[p['id']]=p
brief=open('/verif/notes/SEED_BRIEF.md').read().split('\n',2)[2]
def earlier(pid):
    out=[]
    for d in sorted(glob.glob('/verif/seeded/%s-*'%pid)):
        m=json.load(open(d+'/meta.json'))
        out.append('(%s) %s'%(', '.join(m.get('files') or []), (m.get('summary') or '')[:260].replace('\n',' ')))
    return '\n   - '+'\n   - '.join(out) if out else 'none'
def gen(pid,k,wt):
    p=props[pid]
    txt=json.dumps(p,indent=1,ensure_ascii=False)
    return brief.replace('{WT}',wt).replace('{PROPERTY}',txt).replace('{K}',str(k)).replace('{EARLIER}',earlier(pid))
if __name__=='__main__':
    pid,k,wt=sys.argv[1],sys.argv[2],sys.argv[3]
    print(gen(pid,k,wt))
