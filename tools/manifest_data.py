HOOK_COMMITS = []
NOTES = ("Technique family: static analysis only. Every check inspects /repo's current working tree through the rustc front end "
         "(no code of /repo is executed). Each property is claimed for the structural clauses named in level_claimed.text; "
         "the behavioural remainder is stated in level_note. fix: commits and recorded findings are listed in known_findings.json.")
NOT_APPLICABLE = {}
CLAIMS = {
 "C19": {
  "text": "Decides, on every run, the finite tables and structural necessary conditions behind Maven resolution: all 25 cells of the scope "
          "table evaluated through the call site's argument order (pattern-matrix evaluation, not execution), the optional cut and compile default, "
          "the recursion continuing with the composed scope, conflict identity = {group, artifact, classifier, type} in both the collision id and the "
          "management lookup, first-seen retain predicate, FIFO level-by-level retain shape, managed version/scope/optional operand order, import-scope "
          "splice + skip, own-before-parent order for dependencies and management, scope and coordinate print/parse tables, resolver order.",
  "note": "Not decided: equality with Maven on all POM universes (value-level behaviour of the recursion, async downloads, XML parsing). "
          "Trusted: rustc's HIR/typeck/const-eval; spec/maven.json transcribed from the Maven documentation.",
  "technique": "static analysis: decision-table extraction (pattern-matrix evaluation over const-evaluated patterns) + structural HIR rules",
 },
}
