HOOK_COMMITS = []
NOTES = ("Technique family: static analysis only. Every check inspects /repo's current working tree through the rustc front end "
         "(no code of /repo is executed). Each property is claimed for the structural clauses named in level_claimed.text; "
         "the behavioural remainder is stated in level_note. fix: commits and recorded findings are listed in known_findings.json.")
# properties whose check is reviewed and released; anything else stays under not_applicable until then
ENABLED = ["C01", "C02", "C03", "C04", "C05", "C06", "C07", "C08", "C09", "C10", "C11", "C12", "C13", "C14", "C15", "C16", "C17", "C18", "C19", "C20"]
NOT_APPLICABLE = {}
CLAIMS = {
 "C01": {
  "text": "Decides the finite tables and coverage clauses of the class reader on every run: class_constants (205 opcode values, 17 pool tags, 9 handle "
          "kinds, atype, attribute names, magic) against the JVMS; for each of the 256 opcode bytes and 256 wide sub-opcodes the second-pass arm "
          "(Instruction variant, implied local index, operand bytes consumed, operand kind: pool-entry kind / label / local) and its agreement with "
          "the label-creating first pass; switch shapes; PoolRead::read tag -> layout -> variant -> slot count (the numeric payloads Integer/Float/Long/Double are one read of the full width), as_X destructuring, method-handle kind "
          "table, loadable/constant-value kind sets; no table filled by the reader is dropped (write-only accumulator) and every visitor method has a "
          "call site; attribute dispatch per location; the nine access-flag conversion tables (field <-> JVMS mask); verification-type, frame-type, "
          "element-value, target-type, type-path tag tables and 4-byte alignment. (R01.13) every counted loop of the reader (`for _ in 0..count`) delivers one element per iteration: no continue/break, every push unconditional; (R01.11) switch padding evaluated at stream positions 0..7. Premises evaluated with it: C17 R17.4 (the tree builder stores each group where the replay reads it) and C02 R02.1 attr-source. (R01.5 now an accessor x entry-kind table evaluated with the pool module inlined; R01.14) a lazily resolved pool value depends on every payload field of its entry on every successful path (no memo keyed by part of the entry); (R01.15) the i16/i32 branch-target helpers evaluated at boundary probes over the whole in-range domain; premise C17 R17.7: the tree builder never declines a class, field or method.",
  "note": "Not decided: that labels denote the right instruction for every byte stream, frame attachment, modified-UTF-8 decoding, bootstrap "
          "argument values, i.e. read_class(bytes) == ground truth as a value-level law. 2 recorded findings (parameter annotations skipped). "
          "Trusted: rustc HIR/typeck/const-eval; spec/jvms_tables.json transcribed from JVMS ch. 4/6.",
  "technique": "static analysis: decision-table extraction (pattern-matrix evaluation over const-evaluated patterns), abstract byte-consumption "
               "counting per arm, sibling agreement (pass 1 vs pass 2), write-only-accumulator and call-coverage rules",
 },
 "C19": {
  "text": "Decides, on every run, the finite tables and structural necessary conditions behind Maven resolution: all 25 cells of the scope "
          "table evaluated through the call site's argument order (pattern-matrix evaluation, not execution), the optional cut and compile default, "
          "the recursion continuing with the composed scope, conflict identity = {group, artifact, classifier, type} in both the collision id and the "
          "management lookup, first-seen retain predicate, FIFO level-by-level retain shape, managed version/scope/optional operand order, import-scope "
          "splice + skip, own-before-parent order for dependencies and management, scope and coordinate print/parse tables, resolver order. The collision identity is evaluated at every type string known to the crate's type tables (type, not extension). Also: one mediation pass over the whole forest of roots (get_maven_dependencies evaluated on multi-root forests), every POM fetched through the full repository list, FoundDependency print/parse inverse for URLs containing '@' or the separator.",
  "note": "Not decided: equality with Maven on all POM universes (value-level behaviour of the recursion, async downloads, XML parsing). "
          "Trusted: rustc's HIR/typeck/const-eval; spec/maven.json transcribed from the Maven documentation.",
  "technique": "static analysis: decision-table extraction (pattern-matrix evaluation over const-evaluated patterns) + structural HIR rules",
 },
 "C18": {
  "text": "Decides the grammar tables and the type-level discipline behind the descriptor and name types: read_field_type's two terminal tables for "
          "every printable ASCII code point against JVMS 4.3.2 (accepted terminals -> Type/ArrayType variant, everything else -> error), the inverse "
          "writer table, V only in return position, the 255-dimension guard dominating the u8 increment, trailing-input rejection in all three parse(), "
          "'(' / ')' handling; truth-table equivalence of the five name predicates with the documented JVMS 4.2 formulae and of their duke-macros "
          "siblings; check_valid -> predicate delegation; every TryFrom reaching the unchecked constructor only under check_valid == Ok on the same "
          "value; classification of all from_inner_unchecked call sites (macro-internal / validated literal / frozen closed conversion / other owner); "
          "guards of the inner-class split helper and shape of the join helper. (R18.7) the three parse() functions are evaluated by an interpreter of the typed HIR on every string over {I L a / ; [ ( ) V} up to length 4 plus grammar samples with all single-character edits (8668 probes) and compared with an independent JVMS 4.3 recogniser (acceptance and type structure); the inner-class join helper is evaluated (parent, `$`, inner name appended unconditionally); unchecked-constructor sites are attributed through private helpers and type-parameter roles are spelling-independent.",
  "note": "Not decided: parse(write(x)) == x and write(parse(s)) == s as value-level laws on all structures (declined: needs value reasoning). "
          "The closed-conversion table (20 entries) is reviewed by hand. Trusted: rustc HIR/typeck/const-eval; spec/jvms_names.json.",
  "technique": "static analysis: decision-table extraction, boolean truth-table equivalence of predicate structure, guard dominance, who-may-construct (newtype discipline)",
 },
 "C07": {
  "text": "A3 type-directed traversal completeness: for every struct field and enum variant payload of the class tree handled by an impl of "
          "Mappable/MappableWithClassName (17 struct + 6 enum impls, ~300 cases), decides from duke's ADT table whether the position can contain a "
          "class/field/method reference and requires it to be produced by the remapping machinery applied to the same-named source position; all other "
          "positions must be the source position unchanged; constants in output positions are drops. Plus: atom -> BRemapper query table, members "
          "mapped with the original owner name, generic Option/Vec plumbing, jar entry-name rewrite (.class suffix, map_class, stored under new name), "
          "non-class entries copied, ClassRepr read table. (R07.2 additions) every entry of the input jar yields an output entry (no filter/continue), a zip entry is a class exactly when its name ends in `.class`; remap_class / remap_other are applied to every class / other entry unconditionally (no name- or content-dependent shortcut). (R07.3 addition) the name of the class being remapped (`this_class`) is the owner of a map_field/map_method lookup only in the impls for Field and Method, elsewhere it is only handed on. Premises evaluated with it: C06 R06.1/R06.4 (BRemapper default methods, map_desc), C02 R02.1-3 (writer layout, lengths, attribute counts). (R07.4) totality: inside dukebox::remap every refusal (bail!/Err/ok_or/panic) is the propagation of a failed remapper or helper call - the traversal fails only when the remapper fails; (R07.1) every alternative of a remapped position is a remap-machinery call on the same-named source position (not derived from another position); premise C02 R02.9 (invokeinterface argument-slot count).",
  "note": "Not decided: that the remapper's answers are right (C06), that the written jar re-opens (zip validity), that duke writes the remapped class "
          "correctly (C02). 15 recorded findings (unremapped signatures/inner names/annotation names/indy name, dropped module/record/unknown attributes) "
          "are listed in known_findings.json by exact (type, field) key. Trusted: rustc HIR/typeck; the atom list in rules/c07.py.",
  "technique": "static analysis: type-directed traversal completeness (ADT reachability + intra-procedural provenance of struct-literal fields and match arms)",
 },
}
