//! Concrete (non-generic) entry points for the monomorphic call-graph walk (DESIGN §2.2).
//! Every `e_*` function is a root; nothing here is ever executed.
#![allow(clippy::all)]

use std::io::Cursor;

use anyhow::Result;
use duke::tree::class::ClassFile;
use duke::tree::field::FieldDescriptorSlice;
use duke::tree::method::MethodDescriptorSlice;
use duke::tree::descriptor::ReturnDescriptorSlice;
use quill::tree::mappings::Mappings;

pub fn e_read_class(bytes: Vec<u8>) -> Result<ClassFile> {
    duke::read_class(&mut Cursor::new(bytes))
}

pub fn e_write_class(class: &ClassFile) -> Result<Vec<u8>> {
    let mut out = Vec::new();
    duke::write_class(&mut out, class)?;
    Ok(out)
}

pub fn e_read_class_unit(bytes: Vec<u8>) -> Result<()> {
    duke::read_class_multi(&mut Cursor::new(bytes), ())
}

pub fn e_tiny_v2_read_2(bytes: &[u8]) -> Result<Mappings<2, ()>> {
    quill::tiny_v2::read::<2, ()>(bytes)
}

pub fn e_tiny_v2_read_3(bytes: &[u8]) -> Result<Mappings<3, ()>> {
    quill::tiny_v2::read::<3, ()>(bytes)
}

pub fn e_tiny_v2_read_4(bytes: &[u8]) -> Result<Mappings<4, ()>> {
    quill::tiny_v2::read::<4, ()>(bytes)
}

pub fn e_tiny_v2_diff_read(path: &std::path::Path) -> Result<quill::tree::mappings_diff::MappingsDiff> {
    quill::tiny_v2_diff::read_file(path)
}

pub fn e_enigma_read_into(bytes: &[u8], mappings: &mut Mappings<2, ()>) -> Result<()> {
    quill::enigma_file::read_into(bytes, mappings)
}

pub fn e_nests_read(bytes: &Vec<u8>) -> Result<dukenest::nest::Nests<()>> {
    dukenest::nest::Nests::<()>::read(bytes)
}

pub fn e_parse_field_desc(d: &FieldDescriptorSlice) -> Result<duke::tree::descriptor::ParsedFieldDescriptor> {
    d.parse()
}

pub fn e_parse_method_desc(d: &MethodDescriptorSlice) -> Result<duke::tree::descriptor::ParsedMethodDescriptor> {
    d.parse()
}

pub fn e_parse_return_desc(d: &ReturnDescriptorSlice) -> Result<duke::tree::descriptor::ParsedReturnDescriptor> {
    d.parse()
}
